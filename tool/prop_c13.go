package main

import (
	"go/token"

	"golang.org/x/tools/go/ssa"
)

func init() {
	register("C13", propC13)
	register("C14", propC14)
}

func propC13(c *Check) {
	c.Explain = "REJECTION HALF ONLY. Decides that the rejection gates of collective signing cannot be bypassed: (1) CosiAggregateCommitment rejects an empty set and, per commitment, nil, undecodable points and mask positions outside [0,64) (mark), before recording it; (2) AggregateResponse rejects, per masked index, i >= len(publics) and a missing response; rejects a response count different from the mask size; per response rejects a missing commitment, and under strict an invalid share (publics[i].VerifyWithChallenge over commitment||response with the common challenge), and a non-canonical scalar, before summing it; (3) VerifyResponse rejects nil, out-of-range mask indexes, a signer not in the mask, and a share that fails VerifyWithChallenge with the signer's own key and commitment; (4) FullVerify's threshold / aggregate-key / signature gates (shared with C09); Keys() enumerates all 64 positions."
	c.NotCov = "the completeness half ('valid shares => the signature verifies') and all group algebra. This check decides only that no rejection gate can be bypassed."
	c.Floor(20)
	if f := c.F("crypto.CosiAggregateCommitment"); f != nil {
		var accepts []ssa.Instruction
		for _, r := range acceptReturns(f) {
			if !ConstNil(retValue(r.(*ssa.Return), 0)) {
				accepts = append(accepts, r)
			}
		}
		c.MustPass(f, Gate{Name: "len(randoms) == 0 => reject", RejectOnTrue: true, Cond: Bin(token.EQL, Len(Param("randoms")), ConstInt(0))}, accepts, "returning an aggregate")
		lp := c.RangeLoop(f, "randoms", Param("randoms"))
		R := func(v ssa.Value) bool { e, ok := v.(*ssa.Extract); return ok && e.Index == 2 }
		I := func(v ssa.Value) bool { e, ok := v.(*ssa.Extract); return ok && e.Index == 1 }
		c.LoopGate(f, lp, Gate{Name: "R == nil => reject", RejectOnTrue: true, Cond: BinEither(token.EQL, R, ConstNil)}, "no nil commitment")
		c.LoopGate(f, lp, Gate{Name: "decodePoint(R) err != nil => reject", RejectOnTrue: true, Cond: BinEither(token.NEQ, Extract(1, Call("crypto.decodePoint", SliceOf(R))), ConstNil)}, "commitments are valid points")
		c.LoopGate(f, lp, Gate{Name: "cosi.mark(i) err != nil => reject", RejectOnTrue: true, Cond: BinEither(token.NEQ, Call("(*crypto.CosiSignature).mark", nil, I), ConstNil)}, "mask positions are in range")
		c.LoopEffect(f, lp, func(ins ssa.Instruction) bool {
			mu, ok := ins.(*ssa.MapUpdate)
			return ok && I(mu.Key) && R(mu.Value)
		}, "cosi.commitments[i] = R", "every commitment is recorded under its index")
	}
	if f := c.F("(*crypto.CosiSignature).mark"); f != nil {
		rets := acceptReturns(f)
		c.MustPass(f, Gate{Name: "i >= 64 => reject", RejectOnTrue: true, Cond: Bin(token.GEQ, Param("i"), ConstInt(64))}, rets, "setting a mask bit")
		c.MustPass(f, Gate{Name: "i < 0 => reject", RejectOnTrue: true, Cond: Bin(token.LSS, Param("i"), ConstInt(0))}, rets, "setting a mask bit")
	}
	if f := c.F("(*crypto.CosiSignature).AggregateResponse"); f != nil {
		rets := acceptReturns(f)
		cc := Param("c")
		keysL := c.RangeLoop(f, "mask keys", Call("(*crypto.CosiSignature).Keys", cc))
		idx := PathFrom(Call("(*crypto.CosiSignature).Keys", cc), "[]")
		c.LoopGate(f, keysL, Gate{Name: "i >= len(publics) => reject", RejectOnTrue: true, Cond: Bin(token.GEQ, idx, Len(Param("publics")))}, "mask indexes inside the key vector")
		c.LoopGate(f, keysL, Gate{Name: "responses[i] == nil => reject", RejectOnTrue: true, Cond: BinEither(token.EQL, func(v ssa.Value) bool { l, ok := v.(*ssa.Lookup); return ok && Param("responses")(l.X) && idx(l.Index) }, ConstNil)}, "every masked signer has a response")
		c.Accumulator(f, keysL, "keys", func(self VM) VM { return Call("builtin:append", self, Has(Path(Param("publics"), "[]"))) }, "keys = append(keys, publics[i])")
		c.MustPass(f, Gate{Name: "len(keys) != len(responses) => reject", RejectOnTrue: true, Cond: Bin(token.NEQ, Len(PhiNamed("keys")), Len(Param("responses")))}, rets, "accept (no repeated or extra signer)")
		ch := Call("(*crypto.CosiSignature).Challenge", cc, Param("publics"), Param("message"))
		c.MustPass(f, Gate{Name: "Challenge err != nil => reject", RejectOnTrue: true, Cond: BinEither(token.NEQ, Extract(1, ch), ConstNil)}, rets, "accept")
		rl := c.RangeLoop(f, "responses", Param("responses"))
		I := func(v ssa.Value) bool { e, ok := v.(*ssa.Extract); return ok && e.Index == 1 }
		S := func(v ssa.Value) bool { e, ok := v.(*ssa.Extract); return ok && e.Index == 2 }
		comm := func(v ssa.Value) bool {
			l, ok := v.(*ssa.Lookup)
			return ok && Path(cc, "commitments")(l.X) && I(l.Index)
		}
		c.LoopGate(f, rl, Gate{Name: "c.commitments[i] == nil => reject", RejectOnTrue: true, Cond: BinEither(token.EQL, comm, ConstNil)}, "a response without commitment is rejected")
		vwc := Call("(*crypto.Key).VerifyWithChallenge", func(v ssa.Value) bool {
			u, ok := v.(*ssa.UnOp)
			if !ok {
				return false
			}
			ia, ok := u.X.(*ssa.IndexAddr)
			return ok && Param("publics")(ia.X) && I(ia.Index)
		}, HasAll(comm, S), Extract(0, ch))
		c.LoopGateAny(f, rl, "!strict | publics[i].VerifyWithChallenge(commitment||response, challenge)", []Gate{
			{Name: "strict false", RejectOnTrue: true, Cond: Param("strict")},
			{Name: "share valid", RejectOnTrue: false, Cond: vwc},
		}, "strict aggregation verifies every share against its own signer before summing")
		c.LoopGate(f, rl, Gate{Name: "SetCanonicalBytes(s) err != nil => reject", RejectOnTrue: true, Cond: BinEither(token.NEQ, Extract(1, Call("(*filippo.io/edwards25519.Scalar).SetCanonicalBytes", nil, SliceOf(S))), ConstNil)}, "responses are canonical scalars")
		c.Accumulator(f, rl, "S", func(self VM) VM {
			return Call("(*filippo.io/edwards25519.Scalar).Add", self, self, Extract(0, Call("(*filippo.io/edwards25519.Scalar).SetCanonicalBytes", nil, SliceOf(S))))
		}, "S = S.Add(S, si)")
	}
	if f := c.F("(*crypto.CosiSignature).VerifyResponse"); f != nil {
		rets := acceptReturns(f)
		cc := Param("c")
		c.MustPass(f, Gate{Name: "s == nil => reject", RejectOnTrue: true, Cond: BinEither(token.EQL, Param("s"), ConstNil)}, rets, "accept")
		kl := c.RangeLoop(f, "mask keys", Call("(*crypto.CosiSignature).Keys", cc))
		k := PathFrom(Call("(*crypto.CosiSignature).Keys", cc), "[]")
		c.LoopGate(f, kl, Gate{Name: "k >= len(publics) => reject", RejectOnTrue: true, Cond: Bin(token.GEQ, k, Len(Param("publics")))}, "mask indexes inside the key vector")
		c.MustPass(f, Gate{Name: "R == nil => reject (signer not in mask)", RejectOnTrue: true, Cond: BinEither(token.EQL, PhiNamed("R"), ConstNil)}, rets, "accept")
		ch := Call("(*crypto.CosiSignature).Challenge", cc, Param("publics"), Param("message"))
		c.MustPass(f, Gate{Name: "Challenge err != nil => reject", RejectOnTrue: true, Cond: BinEither(token.NEQ, Extract(1, ch), ConstNil)}, rets, "accept")
		c.MustPass(f, Gate{Name: "a.VerifyWithChallenge(R||s, challenge) true", RejectOnTrue: false,
			Cond: Call("(*crypto.Key).VerifyWithChallenge", PhiNamed("a"), HasAll(PhiNamed("R"), Param("s")), Extract(0, ch))}, rets, "accept")
		// a and R are taken at the signer's own position
		okp := true
		n := 0
		for _, name := range []string{"a", "R"} {
			for _, v := range findValues(f, PhiNamed(name)) {
				ph := v.(*ssa.Phi)
				for i, ed := range ph.Edges {
					if ConstNil(ed) || PhiNamed(name)(ed) {
						continue
					}
					n++
					pred := ph.Block().Preds[i]
					if !dominatedByBranch(f, pred, BinEither(token.EQL, k, Param("signer")), true) {
						okp = false
					}
					if name == "a" && !Path(Param("publics"), "[]")(ed) {
						okp = false
					}
					if name == "R" {
						l, isL := ed.(*ssa.Lookup)
						if !isL || !Path(cc, "commitments")(l.X) {
							okp = false
						}
					}
				}
			}
		}
		c.Require(okp && n == 2, "provenance", shortName(f)+"|signer's key and commitment", "the key and commitment used are publics[k] and c.commitments[k] for k == signer", "selection changed")
	}
	if f := c.F("(*crypto.CosiSignature).Challenge"); f != nil {
		c.HashSealedAfterWrites(f, "the challenge binds R, A and the message")
		writes := findCalls(f, "iface:hash.Hash.Write")
		hasR, hasA, hasM := false, false, false
		agg := Extract(0, Call("(*crypto.CosiSignature).aggregatePublicKey", Param("c"), Param("publics")))
		for _, wc := range writes {
			a := wc.Common().Args[0]
			hasR = hasR || Has(Path(Param("c"), "Signature"))(a)
			hasA = hasA || Has(agg)(a)
			hasM = hasM || Has(Param("message"))(a)
		}
		c.Require(hasR && hasA && hasM, "provenance", shortName(f)+"|transcript", "the common challenge hashes the aggregate commitment, the aggregate key of the masked signers and the message", "an ingredient is missing")
	}
	cosiFullVerify(c)
}

func propC14(c *Check) {
	c.Explain = "REJECTION HALF ONLY. Decides the gates and transcript binding of aggregate transaction signatures: (1) collectAggregateSigners rejects an empty signer list and, per signer, a non-increasing index (prev is updated to the index every iteration), an index outside the key vector, a nil key and an undecodable point, before selecting it; the transcript starts with the signer count and appends every index and key; (2) aggregateCoefficient hashes the domain tag, the transcript, the signer index and the signer key; (3) aggregateWeightedPublicKey gates the collection error and the coefficient error and adds coefficient*point for every selected signer; (4) AggregateSign rejects a key-count mismatch, a short seed, a collection failure, a nil private key and a private key whose public key differs from publics[signer]; its nonce hash covers private key, seed, transcript, aggregate key, index and message; (5) AggregateVerify rejects nil, a collection failure and a failed A.Verify(message, *sig); sign and verify obtain the key from the same function aggregateWeightedPublicKey(publics, signers)."
	c.NotCov = "rogue-key / cancellation resistance and every algebraic fact ('verifies for exactly that set'): only the gates and the transcript ingredients are decided."
	c.Floor(18)
	if f := c.F("crypto.collectAggregateSigners"); f != nil {
		var accepts []ssa.Instruction
		for _, r := range acceptReturns(f) {
			if !ConstNil(retValue(r.(*ssa.Return), 0)) {
				accepts = append(accepts, r)
			}
		}
		signers, publics := Param("signers"), Param("publics")
		c.MustPass(f, Gate{Name: "len(signers) == 0 => reject", RejectOnTrue: true, Cond: Bin(token.EQL, Len(signers), ConstInt(0))}, accepts, "returning a selection")
		lp := c.RangeLoop(f, "signers", signers)
		i := Path(signers, "[]")
		pk := func(v ssa.Value) bool {
			u, ok := v.(*ssa.UnOp)
			if !ok {
				return false
			}
			ia, ok := u.X.(*ssa.IndexAddr)
			return ok && publics(ia.X) && i(ia.Index)
		}
		c.LoopGate(f, lp, Gate{Name: "i <= prev => reject", RejectOnTrue: true, Cond: Bin(token.LEQ, i, PhiNamed("prev"))}, "strictly increasing signer indexes (sorted, no duplicates)")
		c.Accumulator(f, lp, "prev", func(self VM) VM { return i }, "prev = i")
		c.LoopGate(f, lp, Gate{Name: "i >= len(publics) => reject", RejectOnTrue: true, Cond: Bin(token.GEQ, i, Len(publics))}, "indexes inside the key vector")
		c.LoopGate(f, lp, Gate{Name: "publics[i] == nil => reject", RejectOnTrue: true, Cond: BinEither(token.EQL, pk, ConstNil)}, "no nil key")
		c.LoopGate(f, lp, Gate{Name: "decodePoint(publics[i]) err != nil => reject", RejectOnTrue: true, Cond: BinEither(token.NEQ, Extract(1, Call("crypto.decodePoint", SliceOf(pk))), ConstNil)}, "keys are valid points")
		c.Accumulator(f, lp, "transcript", func(self VM) VM {
			return Call("builtin:append", Call("(encoding/binary.bigEndian).AppendUint32", nil, self, Conv(i)), SliceOf(pk))
		}, "transcript = append(AppendUint32(transcript, i), publics[i]...)")
		c.Accumulator(f, lp, "selected", func(self VM) VM { return Call("builtin:append", self, HasAll(i, pk)) }, "selected = append(selected, {i, publics[i], point})")
		// transcript seed carries the signer count
		oks := false
		for _, v := range findValues(f, PhiNamed("transcript")) {
			for k, ed := range v.(*ssa.Phi).Edges {
				if !lp.Header.Dominates(v.(*ssa.Phi).Block().Preds[k]) && Call("(encoding/binary.bigEndian).AppendUint32", nil, nil, Conv(Len(signers)))(ed) {
					oks = true
				}
			}
		}
		c.Require(oks, "provenance", shortName(f)+"|transcript seed", "the transcript starts with the number of signers", "seed changed")
	}
	if f := c.F("crypto.aggregateCoefficient"); f != nil {
		c.HashSealedAfterWrites(f, "a coefficient computed before the signer index and key are absorbed is the same for every signer")
		writes := findCalls(f, "iface:hash.Hash.Write")
		d, t, ix, k := false, false, false, false
		for _, wc := range writes {
			a := wc.Common().Args[0]
			d = d || Has(ConstStr("mixin-aggregate-coefficient-v1"))(a)
			t = t || Param("transcript")(a)
			ix = ix || Has(func(v ssa.Value) bool { al, ok := v.(*ssa.Alloc); return ok && allocIs(al, "idx") })(a)
			k = k || Has(Path(Param("signer"), "public"))(a)
		}
		idxFilled := len(findCalls(f, "(encoding/binary.bigEndian).PutUint32")) == 1
		c.Require(d && t && ix && k && idxFilled, "provenance", shortName(f)+"|coefficient transcript", "the coefficient hashes domain tag, full signer transcript, signer index and signer key", "an ingredient is missing")
	}
	if f := c.F("crypto.aggregateWeightedPublicKey"); f != nil {
		col := Call("crypto.collectAggregateSigners", Param("publics"), Param("signers"))
		var accepts []ssa.Instruction
		for _, r := range acceptReturns(f) {
			if ConstNil(retValue(r.(*ssa.Return), 3)) && !ConstNil(retValue(r.(*ssa.Return), 1)) {
				accepts = append(accepts, r)
			}
		}
		c.MustPass(f, Gate{Name: "collectAggregateSigners err != nil => reject", RejectOnTrue: true, Cond: BinEither(token.NEQ, Extract(2, col), ConstNil)}, accepts, "returning an aggregate key")
		lp := c.RangeLoop(f, "selected", Extract(0, col))
		co := Call("crypto.aggregateCoefficient", Extract(1, col))
		c.LoopGate(f, lp, Gate{Name: "aggregateCoefficient err != nil => reject", RejectOnTrue: true, Cond: BinEither(token.NEQ, Extract(1, co), ConstNil)}, "every coefficient is computed")
		c.Accumulator(f, lp, "P", func(self VM) VM {
			return Call("(*filippo.io/edwards25519.Point).Add", self, self, Call("(*filippo.io/edwards25519.Point).ScalarMult", nil, Extract(0, co), PathFrom(Extract(0, col), "[].point")))
		}, "P = P + coeff * signer.point for every selected signer")
	}
	if f := c.F("crypto.AggregateSign"); f != nil {
		var accepts []ssa.Instruction
		for _, r := range acceptReturns(f) {
			if !ConstNil(retValue(r.(*ssa.Return), 0)) {
				accepts = append(accepts, r)
			}
		}
		agg := Call("crypto.aggregateWeightedPublicKey", Param("publics"), Param("signers"))
		c.MustPass(f, Gate{Name: "len(privKeys) != len(signers) => reject", RejectOnTrue: true, Cond: Bin(token.NEQ, Len(Param("privKeys")), Len(Param("signers")))}, accepts, "returning a signature")
		c.MustPass(f, Gate{Name: "len(seed) < 32 => reject", RejectOnTrue: true, Cond: Bin(token.LSS, Len(Param("seed")), ConstInt(32))}, accepts, "returning a signature")
		c.MustPass(f, Gate{Name: "aggregateWeightedPublicKey err != nil => reject", RejectOnTrue: true, Cond: BinEither(token.NEQ, Extract(3, agg), ConstNil)}, accepts, "returning a signature")
		lp := c.RangeLoop(f, "signers#1/1", Param("signers"))
		priv := Path(Param("privKeys"), "[]")
		c.LoopGate(f, lp, Gate{Name: "private == nil => reject", RejectOnTrue: true, Cond: BinEither(token.EQL, priv, ConstNil)}, "no nil private key")
		c.LoopGate(f, lp, Gate{Name: "private.Public() != *publics[signer] => reject", RejectOnTrue: true,
			Cond: BinEither(token.NEQ, Call("(crypto.Key).Public", priv), Path(Param("publics"), "[]"))}, "each private key matches the public key at its signer index")
		// nonce transcript
		c.HashSealedAfterWrites(f, "the deterministic nonce covers every listed ingredient")
		writes := findCalls(f, "iface:hash.Hash.Write")
		want := map[string]VM{"private": Has(priv), "seed": Param("seed"), "transcript": Extract(2, agg), "A": Has(Extract(0, agg)), "message": Has(Param("message")), "domain": Has(ConstStr("mixin-aggregate-nonce-v1"))}
		got := map[string]bool{}
		for _, wc := range writes {
			for n, m := range want {
				if m(wc.Common().Args[0]) {
					got[n] = true
				}
			}
		}
		c.Require(len(got) == len(want), "provenance", shortName(f)+"|nonce transcript", "each nonce is derived from domain tag, private key, seed, signer transcript, aggregate key and message", "an ingredient is missing from the nonce derivation")
	}
	if f := c.F("crypto.AggregateVerify"); f != nil {
		rets := acceptReturns(f)
		agg := Call("crypto.aggregateWeightedPublicKey", Param("publics"), Param("signers"))
		c.MustPass(f, Gate{Name: "sig == nil => reject", RejectOnTrue: true, Cond: BinEither(token.EQL, Param("sig"), ConstNil)}, rets, "accept")
		c.MustPass(f, Gate{Name: "aggregateWeightedPublicKey err != nil => reject", RejectOnTrue: true, Cond: BinEither(token.NEQ, Extract(3, agg), ConstNil)}, rets, "accept")
		c.MustPass(f, Gate{Name: "A.Verify(message, *sig) true", RejectOnTrue: false,
			Cond: Call("(*crypto.Key).Verify", Has(Extract(0, agg)), Param("message"), Path(Param("sig"), ""))}, rets, "accept")
	}
	c.WhoCalls("crypto.aggregateWeightedPublicKey", []string{"crypto.AggregateSign", "crypto.AggregateVerify"}, "signing and verification derive the key with the same function")
}
