package main

import (
	"go/constant"
	"go/token"
	"go/types"

	"golang.org/x/tools/go/ssa"
)

func init() { register("C30", propC30) }

// SliceC matches x[lo:hi] with constant bounds (-1 = absent).
func SliceC(x VM, lo, hi int64) VM {
	return func(v ssa.Value) bool {
		s, ok := v.(*ssa.Slice)
		if !ok || !x(s.X) {
			return false
		}
		chk := func(b ssa.Value, want int64) bool {
			if want < 0 {
				return b == nil
			}
			return b != nil && ConstInt(want)(b)
		}
		return chk(s.Low, lo) && chk(s.High, hi)
	}
}

func constIntOf(v ssa.Value) (int64, bool) {
	c, ok := v.(*ssa.Const)
	if !ok || c.Value == nil || c.Value.Kind() != constant.Int {
		return 0, false
	}
	return constant.Int64Val(c.Value)
}

func propC30(c *Check) {
	c.Explain = "Decides the binding structure of peer authentication: (1) AuthenticateAs returns a token only past: len(msg)==137; (timeoutSec<=0 or |now-ts|<=timeoutSec) with ts read from msg[:8]; the recipient field msg[8:40] equal to recipientId; the peer id derived from the key in msg[40:72] different from recipientId; and publicKey.Verify(Blake3(msg[:73]), msg[73:137]) with that same key; (2) every token field (PeerId from msg[40:72], Timestamp from msg[:8], IsRelayer from msg[72]) is read at an offset inside the signed prefix [0,73); (3) BuildAuthenticationMessage signs Blake3 of the whole prefix it built from timestamp(8) || relayerId(32) || signer public spend key(32) || role byte(1) with the node's private spend key and appends the signature; the checker recomputes 8+32+32+1 = signed-prefix length and +64 = the accepted message length from the types; (4) the handshake caller passes a positive constant timeout and the relayed-token caller passes 0 (recorded exemption: relayed tokens are verified for signature/recipient but not freshness)."
	c.NotCov = "signature unforgeability; clock behaviour; the relayed-token path's missing freshness (recorded, by design of the protocol)."
	c.Floor(12)
	w := c.W
	f := c.F("(*kernel.Node).AuthenticateAs")
	if f != nil {
		msg := Param("msg")
		var accepts []ssa.Instruction
		for _, r := range acceptReturns(f) {
			if !ConstNil(retValue(r.(*ssa.Return), 0)) {
				accepts = append(accepts, r)
			}
		}
		c.Require(len(accepts) == 1, "shape", shortName(f)+"|one accept", "one token-returning exit", "found "+itoa(len(accepts)))
		ts := Call("(encoding/binary.bigEndian).Uint64", nil, SliceC(msg, -1, 8))
		c.MustPass(f, Gate{Name: "len(msg) != 137 => reject", RejectOnTrue: true, Cond: Bin(token.NEQ, Len(msg), ConstInt(137))}, accepts, "issuing a token")
		c.MustPassAny(f, nil, "timeoutSec <= 0 | |now - ts| <= timeoutSec", []Gate{
			{Name: "timeoutSec > 0 false", RejectOnTrue: true, Cond: Bin(token.GTR, Param("timeoutSec"), ConstInt(0))},
			{Name: "abs(now - ts) > timeoutSec => reject", RejectOnTrue: true, Cond: Bin(token.GTR, Call("math.Abs", HasAll(ts, Call("*.Unix"))), Conv(Param("timeoutSec")))},
		}, accepts, "issuing a token (freshness)")
		c.MustPass(f, Gate{Name: "msg[8:40] != recipientId => reject", RejectOnTrue: true, Cond: BinEither(token.NEQ, Has(SliceC(msg, 8, 40)), Param("recipientId"))}, accepts, "issuing a token (addressed to me)")
		peer := Call("(crypto.Hash).ForNetwork", Call("(common.Address).Hash", Has(SliceC(msg, 40, 72))))
		c.MustPass(f, Gate{Name: "peerId == recipientId => reject", RejectOnTrue: true, Cond: BinEither(token.EQL, Has(peer), Param("recipientId"))}, accepts, "issuing a token (not from myself)")
		signedHi := int64(-1)
		prefixSlice := func(v ssa.Value) bool {
			sl, ok := v.(*ssa.Slice)
			if !ok || !msg(sl.X) || sl.Low != nil || sl.High == nil {
				return false
			}
			hi, isC := constIntOf(sl.High)
			if isC {
				signedHi = hi
			}
			return isC
		}
		ver := Call("(*crypto.Key).Verify", Has(SliceC(msg, 40, 72)), Has(Call("crypto.Blake3Hash", prefixSlice)), Has(SliceC(msg, 73, 137)))
		c.MustPass(f, Gate{Name: "key(msg[40:72]).Verify(Blake3(msg[:73]), msg[73:137]) true", RejectOnTrue: false, Cond: ver}, accepts, "issuing a token (signed by the key it names)")
		// token fields
		fields := map[string]bool{}
		eachInstr(f, func(b *ssa.BasicBlock, ins ssa.Instruction) {
			st, ok := ins.(*ssa.Store)
			if !ok {
				return
			}
			fa, ok := st.Addr.(*ssa.FieldAddr)
			if !ok || typeShort(fa.X.Type()) != "*p2p.AuthToken" {
				return
			}
			switch fieldNameOf(fa.X.Type(), fa.Field) {
			case "PeerId":
				fields["PeerId"] = Has(peer)(st.Val)
			case "Timestamp":
				fields["Timestamp"] = ts(st.Val)
			case "IsRelayer":
				fields["IsRelayer"] = Bin(token.EQL, func(v ssa.Value) bool {
					u, ok := v.(*ssa.UnOp)
					if !ok {
						return false
					}
					ia, ok := u.X.(*ssa.IndexAddr)
					return ok && msg(ia.X) && ConstInt(72)(ia.Index)
				}, ConstInt(1))(st.Val)
			case "Data":
				fields["Data"] = Call("bytes.Clone", msg)(st.Val)
			}
		})
		c.Require(fields["PeerId"] && fields["Timestamp"] && fields["IsRelayer"] && fields["Data"], "provenance", shortName(f)+"|token fields", "PeerId derives from msg[40:72], Timestamp from msg[:8], IsRelayer from msg[72], Data is the message: all inside the signed prefix [0,73)", "a token field is read from elsewhere")
		// every constant slice/index of msg other than the signature lies inside the signed prefix
		maxHi := int64(0)
		okb := true
		eachInstr(f, func(b *ssa.BasicBlock, ins ssa.Instruction) {
			switch x := ins.(type) {
			case *ssa.Slice:
				if msg(x.X) && x.High != nil {
					hi, isC := constIntOf(x.High)
					if !isC {
						okb = false
						return
					}
					lo := int64(0)
					if x.Low != nil {
						lo, _ = constIntOf(x.Low)
					}
					if lo >= signedHi && signedHi > 0 {
						return // the signature itself
					}
					if hi > maxHi {
						maxHi = hi
					}
				}
			case *ssa.IndexAddr:
				if msg(x.X) {
					i, isC := constIntOf(x.Index)
					if !isC {
						okb = false
						return
					}
					if i+1 > maxHi {
						maxHi = i + 1
					}
				}
			}
			c.Sites++
		})
		c.Require(okb && signedHi > 0 && maxHi <= signedHi, "constfact", shortName(f)+"|reads within signed prefix", "all non-signature reads of msg use constant offsets that end inside the signed prefix msg[:k] handed to Blake3Hash", "max read end offset is "+itoa(int(maxHi))+", signed prefix ends at "+itoa(int(signedHi)))
		c.Extra = map[string]any{"signed_prefix_len": signedHi}
	}
	b := c.F("(*kernel.Node).BuildAuthenticationMessage")
	if b != nil {
		signs := findCalls(b, "(*crypto.Key).Sign")
		ok := len(signs) == 1
		if ok {
			a := signs[0].Common().Args
			data := func(v ssa.Value) bool { p, isPhi := v.(*ssa.Phi); return isPhi && phiIs(p, "data") }
			ok = Path(Param("node"), "Signer.PrivateSpendKey")(a[0]) && Call("crypto.Blake3Hash", data)(a[1])
			if ok {
				hv := a[1].(*ssa.Call).Call.Args[0]
				ok = HasAll(Param("relayerId"), Path(Param("node"), "Signer.PublicSpendKey"), ConstInt(1), ConstInt(0), Path(Param("node"), "isRelayer"))(hv) || HasAll(Param("relayerId"), Path(Param("node"), "Signer.PublicSpendKey"), ConstInt(1), ConstInt(0))(hv)
			}
		}
		c.Require(ok, "provenance", shortName(b)+"|signed content", "the node signs Blake3(timestamp || relayerId || own public spend key || role byte) with its private spend key", "signed content changed")
		puts := findCalls(b, "(encoding/binary.bigEndian).PutUint64")
		okt := len(puts) == 1 && Has(Call("*.Unix"))(puts[0].Common().Args[2])
		c.Require(okt, "provenance", shortName(b)+"|timestamp", "the first 8 bytes carry the current unix time", "timestamp source changed")
		// layout arithmetic from types
		n := int64(0)
		for _, v := range findValues(b, func(v ssa.Value) bool { a, isA := v.(*ssa.Alloc); return isA && a.Comment == "makeslice" }) {
			if arr, isArr := v.Type().Underlying().(*types.Pointer).Elem().Underlying().(*types.Array); isArr {
				n += arr.Len()
			}
		}
		arrLen := func(pkg, name string) int64 {
			if o := w.Obj(pkg, name); o != nil {
				if a, isArr := o.Type().Underlying().(*types.Array); isArr {
					return a.Len()
				}
			}
			return -1000
		}
		prefix := n + arrLen("crypto", "Hash") + arrLen("crypto", "Key") + 1
		total := prefix + arrLen("crypto", "Signature")
		sp, _ := c.Extra["signed_prefix_len"].(int64)
		c.Require(prefix == sp && total == 137, "constfact", "auth|layout agreement", "builder layout 8+len(Hash)+len(Key)+1 equals the verifier's signed prefix length and +len(Signature) equals the accepted length 137", "builder prefix="+itoa(int(prefix))+" verifier prefix="+itoa(int(sp))+" total="+itoa(int(total)))
		// signature appended last
		rets := allReturns(b)
		okr := len(rets) == 1 && Call("builtin:append", nil, Has(Call("(*crypto.Key).Sign")))(retValue(rets[0], 0))
		c.Require(okr, "shape", shortName(b)+"|signature appended", "the message returned is prefix || signature", "return value changed")
	}
	// callers
	var pos, zero int
	var sites []string
	for _, fn := range w.ModuleFuncs() {
		for _, ci := range findCalls(fn, "iface:p2p.SyncHandle.AuthenticateAs") {
			a := callArgs(ci.Common())
			sites = append(sites, instrPos(w, ci))
			if v, isC := constIntOf(a[3]); isC && v > 0 {
				pos++
			} else if isC && v == 0 {
				zero++
			} else {
				zero = -100
			}
		}
	}
	c.Sites += len(w.ModuleFuncs())
	c.Require(pos == 1 && zero == 1, "callers", "AuthenticateAs|timeouts", "the handshake caller passes a positive constant timeout; the relayed-token caller passes 0 (recorded exemption)", "callers: positive="+itoa(pos)+" zero="+itoa(zero), sites...)
}
