package main

import (
	"go/token"

	"golang.org/x/tools/go/ssa"
)

func init() { register("C34", propC34) }

// SliceOf matches any slice expression x[lo:hi] of a value matching x (bounds free).
func SliceOf(x VM) VM {
	return func(v ssa.Value) bool {
		s, ok := v.(*ssa.Slice)
		return ok && x(s.X)
	}
}

func propC34(c *Check) {
	c.Explain = "Decides the gate structure of custodian update acceptance: (1) ParseCustodianUpdateNodesExtra returns a request only past: the minimum-length gate, len(nodesExtra) % entry size == 0, a successful parseCustodianNode for every entry, the duplicate payee/custodian key gates (with the key set filled for every entry), and bytes.Equal(nodesExtra, sortedExtra) where sortedExtra is rebuilt from the entries after sort.Slice with the comparator bytes.Compare(custodian spend key i, custodian spend key j) < 0; (2) parseCustodianNode gates entry length and action byte and returns an entry only if validate() succeeded or the genesis flag is set; validate() requires payee key != custodian key and both Verify(Blake3(Extra[:161]), sig) gates with the payee signature from Extra[225:289] and the custodian signature from Extra[289:353]; (3) validateCustodianUpdateNodes parses with the literal genesis=false, requires >= custodianNodesMinimumCount entries, a present previous custodian, the approval Verify by the previous custodian's spend key over Blake3(Extra[:len-64]), and out.Amount.Cmp(total) >= 0 where total accumulates the new-entry price for unknown custodians and the update price for changed payees; (4) kernel validateCustodianUpdateNodes gates every entry on a known node id, equal payee and the node signer's signature over Extra[:161]."
	c.NotCov = "the encode/parse round trip of entries (byte-offset algebra beyond the constant offsets checked); signature unforgeability."
	c.Floor(24)
	w := c.W

	if f := c.F("common.ParseCustodianUpdateNodesExtra"); f != nil {
		var accepts []ssa.Instruction
		for _, r := range acceptReturns(f) {
			if !ConstNil(retValue(r.(*ssa.Return), 0)) {
				accepts = append(accepts, r)
			}
		}
		c.Require(len(accepts) == 1, "shape", shortName(f)+"|one accept", "one request-returning exit", "found "+itoa(len(accepts)))
		extra := Param("extra")
		nodesExtra := SliceOf(extra)
		min := int64(64 + 353*7 + 64)
		if es, ok := w.ConstVal("common", "custodianNodeExtraSize"); ok {
			if mc, ok2 := w.ConstVal("common", "custodianNodesMinimumCount"); ok2 {
				min = 64 + es*mc + 64
			}
		}
		c.MustPass(f, Gate{Name: "len(extra) < 64 + size*min + 64 => reject", RejectOnTrue: true, Cond: Bin(token.LSS, Len(extra), ConstInt(min))}, accepts, "returning a request")
		c.MustPass(f, Gate{Name: "len(nodesExtra) % entrySize != 0 => reject", RejectOnTrue: true, Cond: Bin(token.NEQ, Bin(token.REM, Len(nodesExtra), w.ConstNamed("common", "custodianNodeExtraSize")), ConstInt(0))}, accepts, "returning a request")
		lp := c.ForOrRangeLoopWithCall(f, "entries", "common.parseCustodianNode")
		pc := Call("common.parseCustodianNode", SliceOf(nodesExtra), Param("genesis"))
		c.LoopGate(f, lp, Gate{Name: "parseCustodianNode(entry, genesis) err != nil => reject", RejectOnTrue: true, Cond: BinEither(token.NEQ, Extract(1, pc), ConstNil)}, "every entry parses (and validates)")
		cn := Extract(0, pc)
		uniq := func(v ssa.Value) bool {
			m, ok := v.(*ssa.MakeMap)
			return ok && typeShort(m.Type()) == "map[crypto.Key]bool"
		}
		for _, k := range []string{"Payee.PublicSpendKey", "Custodian.PublicSpendKey"} {
			k := k
			c.LoopGate(f, lp, Gate{Name: "uniqueKeys[cn." + k + "] => reject", RejectOnTrue: true, Cond: func(v ssa.Value) bool {
				l, ok := v.(*ssa.Lookup)
				return ok && uniq(l.X) && PathFrom(cn, k)(l.Index)
			}}, "keys are unique across entries")
			c.LoopEffect(f, lp, func(ins ssa.Instruction) bool {
				mu, ok := ins.(*ssa.MapUpdate)
				return ok && uniq(mu.Map) && PathFrom(cn, k)(mu.Key) && ConstBool(true)(mu.Value)
			}, "uniqueKeys[cn."+k+"] = true", "the key set is filled for every entry")
		}
		sorted := Local("sortedExtra")
		eq := Call("bytes.Equal", nodesExtra, sorted)
		c.MustPass(f, Gate{Name: "bytes.Equal(nodesExtra, sortedExtra) true", RejectOnTrue: false, Cond: eq}, accepts, "returning a request (entries are in canonical order)")
		// sort precedes rebuild precedes compare
		sorts := findCalls(f, "sort.Slice")
		rebuild := c.RangeLoop(f, "rebuild#2/2", Local("nodes"))
		eqs := findValues(f, eq)
		ok := len(sorts) == 1 && rebuild != nil && len(eqs) == 1 && sorts[0].Block().Dominates(rebuild.Header) && rebuild.Header.Dominates(eqs[0].(ssa.Instruction).Block()) && !rebuild.Blocks[eqs[0].(ssa.Instruction).Block().Index]
		if ok {
			ok = Local("nodes")(sorts[0].Common().Args[0]) || Has(Local("nodes"))(sorts[0].Common().Args[0])
		}
		c.Require(ok, "order", shortName(f)+"|sort, rebuild, compare", "sort.Slice(nodes) dominates the loop that rebuilds sortedExtra, which dominates the comparison", "ordering changed")
		c.Accumulator(f, rebuild, "sortedExtra", func(self VM) VM {
			return Call("builtin:append", self, PathFrom(Local("nodes"), "[].Extra"))
		}, "sortedExtra = append(sortedExtra, n.Extra...)")
	}
	if f := c.F("common.ParseCustodianUpdateNodesExtra$1"); f != nil {
		rets := allReturns(f)
		key := func(v ssa.Value) bool {
			_, p := accessPath(v)
			n := len(p)
			return n >= 3 && p[n-1] == "PublicSpendKey" && p[n-2] == "Custodian" && p[n-3] == "[]"
		}
		ok := len(rets) == 1 && Bin(token.LSS, Call("bytes.Compare", SliceOf(key), SliceOf(key)), ConstInt(0))(rets[0].Results[0])
		c.Require(ok, "comparator", shortName(f)+"|by custodian spend key", "the canonical order is ascending bytes.Compare of the custodian public spend keys", "comparator changed")
	}
	if f := c.F("common.parseCustodianNode"); f != nil {
		var accepts []ssa.Instruction
		for _, r := range acceptReturns(f) {
			if !ConstNil(retValue(r.(*ssa.Return), 0)) {
				accepts = append(accepts, r)
			}
		}
		c.MustPass(f, Gate{Name: "len(extra) != entrySize => reject", RejectOnTrue: true, Cond: Bin(token.NEQ, Len(Param("extra")), w.ConstNamed("common", "custodianNodeExtraSize"))}, accepts, "returning an entry")
		c.MustPass(f, Gate{Name: "extra[0] != actionUpdate => reject", RejectOnTrue: true, Cond: Bin(token.NEQ, Path(Param("extra"), "[]"), w.ConstNamed("common", "custodianNodeActionUpdate"))}, accepts, "returning an entry")
		c.MustPassAny(f, nil, "validate() == nil | genesis", []Gate{
			{Name: "cn.validate() != nil", RejectOnTrue: true, Cond: BinEither(token.NEQ, Call("(*common.CustodianNode).validate"), ConstNil)},
			{Name: "genesis", RejectOnTrue: false, Cond: Param("genesis")},
		}, accepts, "returning an entry (signatures verified unless genesis)")
	}
	if f := c.F("(*common.CustodianNode).validate"); f != nil {
		rets := acceptReturns(f)
		cn := Param("cn")
		eh := Call("crypto.Blake3Hash", SliceC(Path(cn, "Extra"), -1, 161))
		c.MustPass(f, Gate{Name: "payee key == custodian key => reject", RejectOnTrue: true, Cond: BinEither(token.EQL, Path(cn, "Payee.PublicSpendKey"), Path(cn, "Custodian.PublicSpendKey"))}, rets, "accept")
		c.MustPass(f, Gate{Name: "payee.Verify(Blake3(Extra[:161]), Extra[225:289]) true", RejectOnTrue: false,
			Cond: Call("(*crypto.Key).Verify", PathAddr(cn, "Payee.PublicSpendKey"), eh, Has(SliceC(Path(cn, "Extra"), 225, 289)))}, rets, "accept")
		c.MustPass(f, Gate{Name: "custodian.Verify(Blake3(Extra[:161]), Extra[289:353]) true", RejectOnTrue: false,
			Cond: Call("(*crypto.Key).Verify", PathAddr(cn, "Custodian.PublicSpendKey"), eh, Has(SliceC(Path(cn, "Extra"), 289, 353)))}, rets, "accept")
	}
	if f := c.F("(*common.Transaction).validateCustodianUpdateNodes"); f != nil {
		rets := acceptReturns(f)
		pc := Call("common.ParseCustodianUpdateNodesExtra", Path(Param("tx"), "Extra"), ConstBool(false))
		curs := Extract(0, pc)
		prev := Extract(0, Call("iface:common.CustodianReader.ReadCustodian", Param("store"), Param("now")))
		c.MustPass(f, Gate{Name: "ParseCustodianUpdateNodesExtra(tx.Extra, false) err != nil => reject", RejectOnTrue: true, Cond: BinEither(token.NEQ, Extract(1, pc), ConstNil)}, rets, "accept (full signature validation, genesis=false literal)")
		c.MustPass(f, Gate{Name: "len(curs.Nodes) < minimum => reject", RejectOnTrue: true, Cond: Bin(token.LSS, Len(PathFrom(curs, "Nodes")), w.ConstNamed("common", "custodianNodesMinimumCount"))}, rets, "accept")
		c.MustPass(f, Gate{Name: "prev == nil => reject", RejectOnTrue: true, Cond: BinEither(token.EQL, prev, ConstNil)}, rets, "accept")
		c.MustPass(f, Gate{Name: "prev.Custodian.PublicSpendKey.Verify(Blake3(Extra[:len-64]), *curs.Signature) true", RejectOnTrue: false,
			Cond: Call("(*crypto.Key).Verify", PathAddrFrom(prev, "Custodian.PublicSpendKey"), Call("crypto.Blake3Hash", SliceOf(Path(Param("tx"), "Extra"))), PathFrom(curs, "Signature"))}, rets, "accept (approved by the current custodian)")
		// the approval hash covers everything but the trailing 64 bytes
		okh := false
		for _, v := range findValues(f, Call("crypto.Blake3Hash", SliceOf(Path(Param("tx"), "Extra")))) {
			sl := v.(*ssa.Call).Call.Args[0].(*ssa.Slice)
			if sl.Low == nil && sl.High != nil && Bin(token.SUB, Len(Path(Param("tx"), "Extra")), ConstInt(64))(sl.High) {
				okh = true
			}
		}
		c.Require(okh, "provenance", shortName(f)+"|approval scope", "the approval covers tx.Extra[:len(tx.Extra)-64]", "approval scope changed")
		total := PhiNamed("total")
		c.MustPass(f, Gate{Name: "out.Amount.Cmp(total) < 0 => reject", RejectOnTrue: true, Cond: Bin(token.LSS, Call("(common.Integer).Cmp", Path(Param("tx"), "Outputs.[].Amount"), total), ConstInt(0))}, rets, "accept (pays at least the price)")
		// price accumulation
		newP := Call("common.NewInteger", w.ConstNamed("common", "custodianNodeNewPrice"))
		updP := Call("common.NewInteger", w.ConstNamed("common", "custodianNodeUpdatePrice"))
		adds := findValues(f, Call("(common.Integer).Add", total))
		nNew, nUpd := 0, 0
		look := func(i int) VM {
			return func(v ssa.Value) bool {
				e, ok := v.(*ssa.Extract)
				if !ok || e.Index != i {
					return false
				}
				l, ok := e.Tuple.(*ssa.Lookup)
				return ok && l.CommaOk
			}
		}
		for _, a := range adds {
			cl := a.(*ssa.Call)
			switch {
			case newP(cl.Call.Args[1]) && dominatedByBranch(f, cl.Block(), look(1), false):
				nNew++
			case updP(cl.Call.Args[1]) && dominatedByBranch(f, cl.Block(), look(1), true) && dominatedByBranch(f, cl.Block(), Bin(token.NEQ, look(0), Call("(common.Address).String")), true):
				nUpd++
			}
		}
		c.Require(len(adds) == 2 && nNew == 1 && nUpd == 1, "shape", shortName(f)+"|price table", "total += new price when the custodian key is unknown, += update price when its payee changed, nothing otherwise", "price accumulation changed")
		lp := c.RangeLoop(f, "curs.Nodes", PathFrom(curs, "Nodes"))
		c.EdgeEffect(f, lp, look(1), false, func(ins ssa.Instruction) bool {
			cl, ok := ins.(*ssa.Call)
			return ok && Call("(common.Integer).Add", total, newP)(cl)
		}, "custodian key not found => total += new price", "every new entry is charged")
		c.EdgeEffect(f, lp, Bin(token.NEQ, look(0), Call("(common.Address).String")), true, func(ins ssa.Instruction) bool {
			cl, ok := ins.(*ssa.Call)
			return ok && Call("(common.Integer).Add", total, updP)(cl)
		}, "payee changed => total += update price", "every changed entry is charged")
		if lp != nil {
			okp := false
			for _, ins := range lp.Header.Instrs {
				if p, isPhi := ins.(*ssa.Phi); isPhi && phiIs(p, "total") {
					okp = true
					for i, ed := range p.Edges {
						if !lp.Header.Dominates(lp.Header.Preds[i]) {
							continue
						}
						if !(ed == ssa.Value(p) || total(ed) || Call("(common.Integer).Add", total)(ed)) {
							okp = false
						}
					}
				}
			}
			c.Require(okp, "shape", shortName(f)+"|total carried", "total is carried through every iteration (never reset)", "total can be reset in the loop")
		}
	}
	if f := c.F("(*kernel.Node).validateCustodianUpdateNodes"); f != nil {
		pc := Call("common.ParseCustodianUpdateNodesExtra", Path(Param("tx"), "Extra"), ConstBool(false))
		curs := Extract(0, pc)
		rets := acceptReturns(f)
		c.MustPass(f, Gate{Name: "ParseCustodianUpdateNodesExtra(tx.Extra, false) err != nil => reject", RejectOnTrue: true, Cond: BinEither(token.NEQ, Extract(1, pc), ConstNil)}, rets, "accept")
		lp := c.RangeLoop(f, "curs.Nodes", PathFrom(curs, "Nodes"))
		cnode := func(v ssa.Value) bool { l, ok := v.(*ssa.Lookup); return ok && !l.CommaOk }
		c.LoopGate(f, lp, Gate{Name: "filter[id] == nil => reject", RejectOnTrue: true, Cond: BinEither(token.EQL, cnode, ConstNil)}, "every entry names a known node")
		c.LoopGate(f, lp, Gate{Name: "cn.Payee != n.Payee => reject", RejectOnTrue: true, Cond: Bin(token.NEQ, Call("(common.Address).String", PathFrom(cnode, "Payee")), Call("(common.Address).String", PathFrom(curs, "Nodes.[].Payee")))}, "the payee is the node's payee")
		c.LoopGate(f, lp, Gate{Name: "cn.Signer.PublicSpendKey.Verify(Blake3(n.Extra[:161]), n.Extra[161:225]) true", RejectOnTrue: false,
			Cond: Call("(*crypto.Key).Verify", PathAddrFrom(cnode, "Signer.PublicSpendKey"), Call("crypto.Blake3Hash", SliceC(PathFrom(curs, "Nodes.[].Extra"), -1, 161)), Has(SliceC(PathFrom(curs, "Nodes.[].Extra"), 161, 225)))}, "every entry is signed by its node signer")
	}
}
