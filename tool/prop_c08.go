package main

import (
	"fmt"
	"go/token"
	"strings"

	"golang.org/x/tools/go/ssa"
)

func init() { register("C08", propC08) }

func propC08(c *Check) {
	c.Explain = "Decides totality and the point-validity gates of peer message parsing: (1) panic-site inventory with guard discharge from parseNetworkMessage over everything it reaches (transaction / snapshot decoders, parseTransactionsPayload, unmarshalSyncPoints): every index, slice bound, conversion, make and documented library panic is discharged by interval facts on len(data) established by the size gates of the same case (len(data[k:]) is normalised to len(data)-k), loop shapes, or the reviewed table /verif/tables/nopanic_C08.tsv; (2) every crypto.Key destination filled from wire bytes that the protocol later uses as a curve point (Commitment in announcement / commitment / full challenge, Challenge in full challenge, each pre-commitment) is gated by CheckKey() before the message is returned; an unsigned full challenge (nil snapshot signature) is rejected; (3) class table: every PeerMessageType* constant emitted by a build*Message function has a case in parseNetworkMessage, and the transaction bundle count fits its single count byte (SnapshotTransactionsMaximum <= 255 with the builder's panic above it). Integer width model of the panic inventory: conversions are looked through only when value-preserving and sums in types narrower than the word are monotone only when wrapping is excluded by operand type bounds or by a dominating len(P[k:]) >= S guard. Builder/parser limit agreement: the largest commitment count buildCommitmentsMessage emits is admitted by the parser and fits the count field."
	c.NotCov = "field-by-field round-trip equality of built and parsed messages (offset algebra); only the tag table, the count byte and the parse-side gates are decided."
	w := c.W
	f := c.F("p2p.parseNetworkMessage")
	if f == nil {
		return
	}
	np := &nopanic{c: c, entry: f, skipPanicsIn: integerSkipPanics, preCall: integerPreCall}
	np.run("C08", nil)
	c.Floor(8)

	var accepts []ssa.Instruction
	for _, r := range acceptReturns(f) {
		if !ConstNil(retValue(r.(*ssa.Return), 0)) {
			accepts = append(accepts, r)
		}
	}
	msg := func(v ssa.Value) bool { a, ok := v.(*ssa.Alloc); return ok && typeShort(a.Type()) == "*p2p.PeerMessage" }
	typ := PathFrom(msg, "Type")
	_ = typ
	// CheckKey gates: for each case constant, the case body reaches the accept only through CheckKey true
	type keyGate struct{ tag, field string }
	for _, kg := range []keyGate{
		{"PeerMessageTypeBatchSnapshotAnnouncement", "Commitment"},
		{"PeerMessageTypeBatchSnapshotCommitment", "Commitment"},
		{"PeerMessageTypeBatchFullChallenge", "Commitment"},
		{"PeerMessageTypeBatchFullChallenge", "Challenge"},
	} {
		caseIf := findIfs(f, BinEither(token.EQL, AnyV, w.ConstNamed("p2p", kg.tag)))
		if len(caseIf) != 1 {
			c.Fail("anchor", shortName(f)+"|case "+kg.tag, "one case for "+kg.tag, "found "+itoa(len(caseIf)))
			continue
		}
		body := caseIf[0].Block().Succs[0]
		ck := Call("(crypto.Key).CheckKey", PathFrom(msg, kg.field))
		c.mustPassFrom(f, body, Gate{Name: kg.tag + ": msg." + kg.field + ".CheckKey() true", RejectOnTrue: false, Cond: ck}, accepts, "returning a parsed "+kg.tag+" message")
	}
	// pre-commitments: per-key gate in the loop
	if pre := findIfs(f, BinEither(token.EQL, AnyV, w.ConstNamed("p2p", "PeerMessageTypePreCommitments"))); len(pre) == 1 {
		var appends []ssa.Instruction
		eachInstr(f, func(b *ssa.BasicBlock, ins ssa.Instruction) {
			if st, ok := ins.(*ssa.Store); ok {
				if _, p := accessPath(st.Addr); len(p) == 1 && p[0] == "Commitments" {
					appends = append(appends, ins)
				}
			}
		})
		key := func(v ssa.Value) bool { a, ok := v.(*ssa.Alloc); return ok && allocIs(a, "key") }
		c.Require(len(appends) == 1, "shape", shortName(f)+"|pre-commitment append", "one append to msg.Commitments", "found "+itoa(len(appends)))
		c.mustPassFrom(f, pre[0].Block().Succs[0], Gate{Name: "pre-commitment key.CheckKey() true", RejectOnTrue: false, Cond: Call("(crypto.Key).CheckKey", PathFrom(key, ""))}, appends, "recording a pre-commitment")
	}
	// unsigned full challenge rejected
	if fc := findIfs(f, BinEither(token.EQL, AnyV, w.ConstNamed("p2p", "PeerMessageTypeBatchFullChallenge"))); len(fc) == 1 {
		s := Extract(0, Call("common.UnmarshalVersionedSnapshot"))
		c.mustPassFrom(f, fc[0].Block().Succs[0], Gate{Name: "full challenge: s.Signature == nil => reject", RejectOnTrue: true, Cond: BinEither(token.EQL, PathFrom(s, "Signature"), ConstNil)}, accepts, "returning a parsed full challenge")
	}

	// class table: tags emitted by builders vs parser cases
	emitted := map[string]bool{}
	tagNames := w.constsWithPrefix("p2p", "PeerMessageType")
	tagVal := map[int64]string{}
	for _, n := range tagNames {
		if v, ok := w.ConstVal("p2p", n); ok {
			tagVal[v] = n
		}
	}
	for _, fn := range w.ModuleFuncs() {
		n := shortName(fn)
		if !strings.HasPrefix(n, "p2p.build") && !strings.HasPrefix(n, "(*p2p.Peer).build") && !strings.HasPrefix(n, "(*p2p.Peer).Send") {
			continue
		}
		eachInstr(fn, func(b *ssa.BasicBlock, ins ssa.Instruction) {
			for _, op := range ins.Operands(nil) {
				if cst, ok := (*op).(*ssa.Const); ok && cst.Value != nil {
					if bt, isB := cst.Type().Underlying().(interface{ Kind() interface{} }); isB {
						_ = bt
					}
					if v, isI := constIntOf(cst); isI && (typeShort(cst.Type()) == "byte" || typeShort(cst.Type()) == "uint8") {
						if name, has := tagVal[v]; has {
							emitted[name] = true
						}
					}
				}
			}
		})
	}
	fd, p := w.FuncDecl("p2p", "", "parseNetworkMessage")
	parsed := map[string]bool{}
	if fd != nil {
		for _, sw := range SwitchOn(p, fd, TagField("PeerMessage", "Type")) {
			for _, cl := range sw {
				for _, k := range cl.Consts {
					parsed[k] = true
				}
			}
		}
	}
	var missing []string
	for n := range emitted {
		if !parsed[n] {
			missing = append(missing, n)
		}
	}
	c.Sites += len(emitted)
	c.Require(len(emitted) >= 12 && len(missing) == 0, "classtable", "p2p|built tags are parsed", "every message tag written by a builder has a case in parseNetworkMessage", "emitted but not parsed: "+strings.Join(missing, ",")+" (emitted "+itoa(len(emitted))+")")
	// decoder/encoder bound agreement (the canonical gate re-encodes attacker supplied values:
	// every encoder panic bound must be a decoder reject bound)
	if d := c.F("(*common.Decoder).ReadInput"); d != nil {
		var acc []ssa.Instruction
		for _, r := range acceptReturns(d) {
			if !ConstNil(retValue(r.(*ssa.Return), 0)) {
				acc = append(acc, r)
			}
		}
		c.MustPass(d, Gate{Name: "ii > InputIndexLimit => reject", RejectOnTrue: true, Cond: Bin(token.GTR, Extract(0, Call("(*common.Decoder).ReadUint16")), w.ConstNamed("common", "InputIndexLimit"))}, acc, "returning an input (encoder panics above the same limit)")
	}
	if d := c.F("(*common.Decoder).DecodeTransaction"); d != nil {
		var acc []ssa.Instruction
		for _, r := range acceptReturns(d) {
			if !ConstNil(retValue(r.(*ssa.Return), 0)) {
				acc = append(acc, r)
			}
		}
		ri := Extract(0, Call("(*common.Decoder).ReadInt"))
		c.MustPass(d, Gate{Name: "count > SliceCountLimit => reject", Min: 3, RejectOnTrue: true, Cond: Bin(token.GTR, ri, w.ConstNamed("common", "SliceCountLimit"))}, acc, "returning a transaction (inputs / outputs / references bounded as in the encoder)")
		c.MustPass(d, Gate{Name: "el > ExtraSizeStorageCapacity => reject", RejectOnTrue: true, Cond: Bin(token.GTR, Extract(0, Call("(*common.Decoder).ReadUint32")), w.ConstNamed("common", "ExtraSizeStorageCapacity"))}, acc, "returning a transaction")
		c.MustPass(d, Gate{Name: "version < TxVersionHashSignature => reject", RejectOnTrue: true, Cond: Bin(token.LSS, Call("common.checkTxVersion"), w.ConstNamed("common", "TxVersionHashSignature"))}, acc, "returning a transaction")
	}
	if d := c.F("(*common.Decoder).ReadAggregatedSignature"); d != nil {
		var acc []ssa.Instruction
		for _, r := range acceptReturns(d) {
			if !ConstNil(retValue(r.(*ssa.Return), 0)) {
				acc = append(acc, r)
			}
		}
		c.MustPass(d, Gate{Name: "validateAggregatedSigners(js.Signers) != nil => reject", RejectOnTrue: true, Cond: BinEither(token.NEQ, Call("common.validateAggregatedSigners"), ConstNil)}, acc, "returning an aggregated signature (the encoder panics on the same predicate)")
	}
	// builder / parser count-limit agreement for pre-commitment lists: every count the builder is
	// willing to emit must be admitted by the parser (otherwise a built message does not parse back)
	maxAdmitted := func(fn *ssa.Function, lhs VM) (int64, string, bool) {
		best, site, found := int64(0), "", false
		for _, iff := range findIfs(fn, func(v ssa.Value) bool {
			bo, ok := v.(*ssa.BinOp)
			if !ok || (bo.Op != token.GTR && bo.Op != token.GEQ) || !lhs(bo.X) {
				return false
			}
			_, isC := constIntOf(stripConv(bo.Y))
			return isC
		}) {
			bo := iff.Cond.(*ssa.BinOp)
			k, _ := constIntOf(stripConv(bo.Y))
			if bo.Op == token.GEQ {
				k--
			}
			if !found || k < best {
				best, site, found = k, ifPos(w, iff), true
			}
		}
		return best, site, found
	}
	if bld := c.F("p2p.buildCommitmentsMessage"); bld != nil {
		bmax, bsite, okb := maxAdmitted(bld, Len(Param("commitments")))
		pmax, psite, okp := maxAdmitted(f, Conv(Call("(encoding/binary.bigEndian).Uint16")))
		if !okp {
			pmax, psite, okp = maxAdmitted(f, Call("(encoding/binary.bigEndian).Uint16"))
		}
		c.Require(okb && okp && pmax >= bmax && bmax <= 65535, "sibling", "p2p|commitment count limit: parser admits what the builder emits",
			"the largest pre-commitment count buildCommitmentsMessage emits (its panic bound) is admitted by parseNetworkMessage and fits the 16-bit count field",
			fmt.Sprintf("builder admits up to %d (found=%v), parser admits up to %d (found=%v)", bmax, okb, pmax, okp), bsite, psite)
		// the per-key offset 67+32*i is computed in the count's 16-bit type: it must not wrap for any admitted count
		c.Require(okp && 67+32*(pmax-1) <= 65535, "constfact", "p2p|commitment offset arithmetic fits 16 bits",
			"for the largest admitted count M, 67+32*(M-1) <= 65535 (the offset expression is evaluated in uint16 and would silently wrap to an earlier key otherwise)",
			fmt.Sprintf("parser admits up to %d commitments", pmax), psite)
	}
	stm, _ := w.ConstVal("common", "SnapshotTransactionsMaximum")
	c.Require(stm <= 255, "constfact", "p2p|bundle count byte", "the bundle count fits the single count byte", "SnapshotTransactionsMaximum = "+itoa(int(stm)))
	if g := c.F("p2p.parseTransactionsPayload"); g != nil {
		var accepts2 []ssa.Instruction
		for _, r := range acceptReturns(g) {
			if !ConstNil(retValue(r.(*ssa.Return), 0)) {
				accepts2 = append(accepts2, r)
			}
		}
		c.MustPass(g, Gate{Name: "trailing data => reject", RejectOnTrue: true, Cond: Bin(token.GTR, Len(AnyV), ConstInt(0))}, accepts2, "returning a bundle")
	}
}
