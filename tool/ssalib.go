package main

import (
	"sync"
	"path/filepath"
	"os"
	"fmt"
	"go/constant"
	"go/token"
	"go/types"
	"strings"

	"golang.org/x/tools/go/ssa"
)

// ---------- value matchers ----------

// VM is a structural matcher over SSA values. Matchers are built from resolved
// objects (callee functions, struct fields, parameters, constants), never source text.
type VM func(v ssa.Value) bool

func AnyV(ssa.Value) bool { return true }

// deref strips a pointer load: *x -> x's address value; returns nil if v is not a load.
func loadOf(v ssa.Value) ssa.Value {
	if u, ok := v.(*ssa.UnOp); ok && u.Op == token.MUL {
		return u.X
	}
	return nil
}

// calleeName returns the short name of the statically resolved callee of a call, or
// "iface:<Type>.<method>" for interface invokes, or "builtin:<name>", or "".
func calleeName(cc *ssa.CallCommon) string {
	if cc.IsInvoke() {
		return "iface:" + typeShort(cc.Value.Type()) + "." + cc.Method.Name()
	}
	switch f := cc.Value.(type) {
	case *ssa.Function:
		return shortName(f)
	case *ssa.Builtin:
		return "builtin:" + f.Name()
	case *ssa.MakeClosure:
		if fn, ok := f.Fn.(*ssa.Function); ok {
			return shortName(fn)
		}
	}
	return ""
}

func typeShort(t types.Type) string {
	s := types.TypeString(t, func(p *types.Package) string {
		path := p.Path()
		if strings.HasPrefix(path, modPath+"/") {
			return strings.TrimPrefix(path, modPath+"/")
		}
		if path == modPath {
			return "main"
		}
		return path
	})
	return s
}

// Call matches a call (or invoke) whose resolved callee has the given short name and
// whose arguments (receiver first for methods) match the given matchers (missing = any).
func Call(name string, args ...VM) VM {
	return func(v ssa.Value) bool {
		c, ok := v.(*ssa.Call)
		if !ok {
			return false
		}
		if !nameMatch(calleeName(&c.Call), name) {
			return false
		}
		av := callArgs(&c.Call)
		for i, m := range args {
			if m == nil {
				continue
			}
			if i >= len(av) || !m(av[i]) {
				return false
			}
		}
		return true
	}
}

// nameMatch: exact, or pattern ending in ".method" with leading "*." meaning any receiver.
func nameMatch(got, want string) bool {
	if got == want {
		return true
	}
	if strings.HasPrefix(want, "*.") {
		return strings.HasSuffix(got, want[1:])
	}
	if strings.HasPrefix(want, "~") {
		return strings.Contains(got, want[1:])
	}
	return false
}

// callArgs returns receiver (for invoke) followed by args.
func callArgs(cc *ssa.CallCommon) []ssa.Value {
	if cc.IsInvoke() {
		return append([]ssa.Value{cc.Value}, cc.Args...)
	}
	return cc.Args
}

// Extract(i, m): v is the i-th result of a tuple value matching m.
func Extract(i int, m VM) VM {
	return func(v ssa.Value) bool {
		e, ok := v.(*ssa.Extract)
		return ok && e.Index == i && m(e.Tuple)
	}
}

// Field matches a load of struct field `name` (by field object name and owning struct
// type short name, e.g. "common.UTXO") from a base matching m.
func Field(structName, name string, base VM) VM {
	return func(v ssa.Value) bool {
		switch x := v.(type) {
		case *ssa.UnOp:
			if x.Op != token.MUL {
				return false
			}
			fa, ok := x.X.(*ssa.FieldAddr)
			if !ok {
				return false
			}
			return fieldIs(fa.X.Type(), fa.Field, structName, name) && (base == nil || base(fa.X))
		case *ssa.Field:
			return fieldIs(x.X.Type(), x.Field, structName, name) && (base == nil || base(x.X))
		}
		return false
	}
}

// FieldAddrOf matches &base.name.
func FieldAddrOf(structName, name string, base VM) VM {
	return func(v ssa.Value) bool {
		fa, ok := v.(*ssa.FieldAddr)
		if !ok {
			return false
		}
		return fieldIs(fa.X.Type(), fa.Field, structName, name) && (base == nil || base(fa.X))
	}
}

func structOf(t types.Type) (*types.Struct, string) {
	if p, ok := t.Underlying().(*types.Pointer); ok {
		t = p.Elem()
	}
	st, ok := t.Underlying().(*types.Struct)
	if !ok {
		return nil, ""
	}
	return st, typeShort(t)
}

func fieldIs(t types.Type, idx int, structName, name string) bool {
	st, tn := structOf(t)
	if st == nil || idx >= st.NumFields() {
		return false
	}
	if st.Field(idx).Name() != name {
		return false
	}
	if structName == "" {
		return true
	}
	if tn == structName {
		return true
	}
	// promoted through embedding: accept when the field's owning named type matches
	return false
}

// Param matches the named parameter, also when the compiler front end spilled it to a
// local cell because its address is taken (t0 = new T (name); *t0 = name; ... *t0),
// provided the cell is never re-assigned. It also matches the cell's address itself
// (pointer-receiver calls on a spilled value parameter).
func Param(name string) VM {
	return func(v ssa.Value) bool {
		if p, ok := v.(*ssa.Parameter); ok {
			return paramIs(p, name)
		}
		if u, ok := v.(*ssa.UnOp); ok && u.Op == token.MUL {
			v = u.X
		}
		if fv, ok := v.(*ssa.FreeVar); ok {
			// captured variable of an enclosing function (closures passed to DB.Update)
			return fv.Name() == name
		}
		a, ok := v.(*ssa.Alloc)
		if !ok {
			return false
		}
		st := storesTo(a)
		if len(st) != 1 {
			return false
		}
		p, ok := st[0].(*ssa.Parameter)
		return ok && a.Comment == p.Name() && paramIs(p, name)
	}
}

// paramIs: p is the parameter the rules call `name`. Names are anchors, but a pure rename must
// not raise an alarm: when the function no longer has a parameter of that name, the parameter at
// the position (and of the type) recorded for that name in /verif/tables/params.tsv stands in.
func paramIs(p *ssa.Parameter, name string) bool {
	if p.Name() == name {
		return true
	}
	fn := p.Parent()
	if fn == nil {
		return false
	}
	for _, q := range fn.Params {
		if q.Name() == name {
			return false
		}
	}
	ent, ok := paramTable()[shortName(fn)+"|"+name]
	if !ok {
		return false
	}
	for i, q := range fn.Params {
		if q == p {
			return i == ent.idx && types.TypeString(p.Type(), nil) == ent.typ
		}
	}
	return false
}

type paramEntry struct {
	idx int
	typ string
}

var (
	paramTableOnce sync.Once
	paramTableData map[string]paramEntry
)

func paramTable() map[string]paramEntry {
	paramTableOnce.Do(func() {
		paramTableData = map[string]paramEntry{}
		data, err := os.ReadFile(filepath.Join(verifDir(), "tables", "params.tsv"))
		if err != nil {
			return
		}
		for _, l := range strings.Split(string(data), "\n") {
			f := strings.Split(l, "\t")
			if len(f) != 4 || strings.HasPrefix(l, "#") {
				continue
			}
			var idx int
			fmt.Sscan(f[1], &idx)
			paramTableData[f[0]+"|"+f[2]] = paramEntry{idx, f[3]}
		}
	})
	return paramTableData
}

func FreeVar(name string) VM {
	return func(v ssa.Value) bool {
		p, ok := v.(*ssa.FreeVar)
		return ok && p.Name() == name
	}
}

func ConstInt(n int64) VM {
	return func(v ssa.Value) bool {
		c, ok := v.(*ssa.Const)
		if !ok || c.Value == nil || c.Value.Kind() != constant.Int {
			return false
		}
		x, exact := constant.Int64Val(c.Value)
		return exact && x == n
	}
}

func ConstNil(v ssa.Value) bool {
	c, ok := v.(*ssa.Const)
	return ok && c.Value == nil
}

func ConstBool(b bool) VM {
	return func(v ssa.Value) bool {
		c, ok := v.(*ssa.Const)
		return ok && c.Value != nil && c.Value.Kind() == constant.Bool && constant.BoolVal(c.Value) == b
	}
}

func ConstStr(s string) VM {
	return func(v ssa.Value) bool {
		c, ok := v.(*ssa.Const)
		return ok && c.Value != nil && c.Value.Kind() == constant.String && constant.StringVal(c.Value) == s
	}
}

// Bin matches a binary operation with the given operator; operands in order.
func Bin(op token.Token, l, r VM) VM {
	return func(v ssa.Value) bool {
		b, ok := v.(*ssa.BinOp)
		return ok && b.Op == op && (l == nil || l(b.X)) && (r == nil || r(b.Y))
	}
}

// BinEither matches op with operands in either order (for == and !=).
func BinEither(op token.Token, l, r VM) VM {
	return func(v ssa.Value) bool {
		b, ok := v.(*ssa.BinOp)
		if !ok || b.Op != op {
			return false
		}
		return (l(b.X) && r(b.Y)) || (l(b.Y) && r(b.X))
	}
}

func Not(m VM) VM {
	return func(v ssa.Value) bool {
		u, ok := v.(*ssa.UnOp)
		return ok && u.Op == token.NOT && m(u.X)
	}
}

// Len matches builtin len(x).
func Len(m VM) VM { return Call("builtin:len", m) }

// Conv strips conversions / ChangeType before applying m.
func Conv(m VM) VM {
	return func(v ssa.Value) bool {
		for {
			switch x := v.(type) {
			case *ssa.Convert:
				v = x.X
				continue
			case *ssa.ChangeType:
				v = x.X
				continue
			}
			break
		}
		return m(v)
	}
}

func Or(ms ...VM) VM {
	return func(v ssa.Value) bool {
		for _, m := range ms {
			if m(v) {
				return true
			}
		}
		return false
	}
}

func And(ms ...VM) VM {
	return func(v ssa.Value) bool {
		for _, m := range ms {
			if !m(v) {
				return false
			}
		}
		return true
	}
}

// Has(m): some value in the bounded backward slice of v (within its function) matches m.
func Has(m VM) VM {
	return func(v ssa.Value) bool {
		for _, x := range backSlice(v, 12) {
			if m(x) {
				return true
			}
		}
		return false
	}
}

// HasAll: every matcher is satisfied by some value in the backward slice.
func HasAll(ms ...VM) VM {
	return func(v ssa.Value) bool {
		sl := backSlice(v, 12)
	next:
		for _, m := range ms {
			for _, x := range sl {
				if m(x) {
					continue next
				}
			}
			return false
		}
		return true
	}
}

// backSlice: values reachable from v by following operands, through loads of local
// allocs (to the values stored there) and through phis, bounded by depth.
func backSlice(v ssa.Value, depth int) []ssa.Value {
	seen := map[ssa.Value]bool{}
	var out []ssa.Value
	var walk func(v ssa.Value, d int)
	walk = func(v ssa.Value, d int) {
		if v == nil || seen[v] || d < 0 {
			return
		}
		seen[v] = true
		out = append(out, v)
		switch x := v.(type) {
		case *ssa.UnOp:
			if x.Op == token.MUL {
				if a, ok := x.X.(*ssa.Alloc); ok {
					for _, s := range storesTo(a) {
						walk(s, d-1)
					}
				}
			}
		}
		if a, ok := v.(*ssa.Alloc); ok && a.Referrers() != nil {
			// everything written into the cell, its fields/elements (two levels), by Store
			// or by copy(cell[:], src)
			var scan func(addr ssa.Value, lvl int)
			scan = func(addr ssa.Value, lvl int) {
				refs := addr.Referrers()
				if refs == nil {
					return
				}
				for _, r := range *refs {
					switch x := r.(type) {
					case *ssa.Store:
						if x.Addr == addr {
							walk(x.Val, d-1)
						}
					case *ssa.Slice:
						if x.X != addr || x.Referrers() == nil {
							continue
						}
						for _, rr := range *x.Referrers() {
							if cl, ok := rr.(*ssa.Call); ok && calleeName(&cl.Call) == "builtin:copy" && cl.Call.Args[0] == ssa.Value(x) {
								walk(cl.Call.Args[1], d-1)
							}
						}
					case *ssa.IndexAddr:
						if x.X == addr && lvl < 2 {
							scan(x, lvl+1)
						}
					case *ssa.FieldAddr:
						if x.X == addr && lvl < 2 {
							scan(x, lvl+1)
						}
					}
				}
			}
			scan(a, 0)
		}
		if ins, ok := v.(ssa.Instruction); ok {
			for _, op := range ins.Operands(nil) {
				if *op != nil {
					walk(*op, d-1)
				}
			}
		}
	}
	walk(v, depth)
	return out
}

// storesTo returns the values stored directly into the alloc.
func storesTo(a *ssa.Alloc) []ssa.Value {
	var out []ssa.Value
	if a.Referrers() == nil {
		return nil
	}
	for _, r := range *a.Referrers() {
		if s, ok := r.(*ssa.Store); ok && s.Addr == a {
			out = append(out, s.Val)
		}
	}
	return out
}

// ---------- instruction / block queries ----------

func eachInstr(fn *ssa.Function, f func(b *ssa.BasicBlock, ins ssa.Instruction)) {
	for _, b := range fn.Blocks {
		for _, ins := range b.Instrs {
			f(b, ins)
		}
	}
}

// findIfs returns the If instructions whose condition matches m.
func findIfs(fn *ssa.Function, m VM) []*ssa.If {
	var out []*ssa.If
	for _, b := range fn.Blocks {
		if len(b.Instrs) == 0 {
			continue
		}
		if i, ok := b.Instrs[len(b.Instrs)-1].(*ssa.If); ok && m(i.Cond) {
			out = append(out, i)
		}
	}
	return out
}

// findCalls returns call instructions (Call, Go, Defer) in fn whose callee matches name.
func findCalls(fn *ssa.Function, name string) []ssa.CallInstruction {
	var out []ssa.CallInstruction
	eachInstr(fn, func(b *ssa.BasicBlock, ins ssa.Instruction) {
		if ci, ok := ins.(ssa.CallInstruction); ok {
			if nameMatch(calleeName(ci.Common()), name) {
				out = append(out, ci)
			}
		}
	})
	return out
}

// findValues returns values (instructions that are values) in fn matching m.
func findValues(fn *ssa.Function, m VM) []ssa.Value {
	var out []ssa.Value
	eachInstr(fn, func(b *ssa.BasicBlock, ins ssa.Instruction) {
		if v, ok := ins.(ssa.Value); ok && m(v) {
			out = append(out, v)
		}
	})
	return out
}

type Edge struct{ From, To int }

// reachable computes the blocks reachable from start without traversing cut edges.
func reachable(fn *ssa.Function, start *ssa.BasicBlock, cut map[Edge]bool) map[int]bool {
	seen := map[int]bool{start.Index: true}
	work := []*ssa.BasicBlock{start}
	for len(work) > 0 {
		b := work[len(work)-1]
		work = work[:len(work)-1]
		for _, s := range b.Succs {
			if cut[Edge{b.Index, s.Index}] || seen[s.Index] {
				continue
			}
			seen[s.Index] = true
			work = append(work, s)
		}
	}
	return seen
}

// errResultIndex returns the index of the last result of type error, or -1.
func errResultIndex(fn *ssa.Function) int {
	res := fn.Signature.Results()
	for i := res.Len() - 1; i >= 0; i-- {
		if isErrorType(res.At(i).Type()) {
			return i
		}
	}
	return -1
}

func boolResultIndex(fn *ssa.Function) int {
	res := fn.Signature.Results()
	for i := res.Len() - 1; i >= 0; i-- {
		if b, ok := res.At(i).Type().Underlying().(*types.Basic); ok && b.Kind() == types.Bool {
			return i
		}
	}
	return -1
}

func isErrorType(t types.Type) bool {
	return types.Identical(t, types.Universe.Lookup("error").Type())
}

// knownNonNil: v is certainly a non-nil error at the point of block b: a fresh error
// value, or a value on the non-nil edge of its own nil test.
func knownNonNil(v ssa.Value, b *ssa.BasicBlock, depth int) bool {
	if depth > 4 {
		return false
	}
	switch x := v.(type) {
	case *ssa.Const:
		return false
	case *ssa.MakeInterface:
		return true
	case *ssa.Call:
		n := calleeName(&x.Call)
		if n == "fmt.Errorf" || n == "errors.New" {
			return true
		}
	case *ssa.Phi:
		for i, e := range x.Edges {
			if !knownNonNil(e, x.Block().Preds[i], depth+1) {
				return false
			}
		}
		return len(x.Edges) > 0
	}
	// dominated by the non-nil edge of a test of v
	if v.Referrers() == nil {
		return false
	}
	for _, r := range *v.Referrers() {
		bo, ok := r.(*ssa.BinOp)
		if !ok || (bo.Op != token.NEQ && bo.Op != token.EQL) {
			continue
		}
		var other ssa.Value
		if bo.X == v {
			other = bo.Y
		} else {
			other = bo.X
		}
		if !ConstNil(other) || bo.Referrers() == nil {
			continue
		}
		for _, rr := range *bo.Referrers() {
			iff, ok := rr.(*ssa.If)
			if !ok {
				continue
			}
			succ := iff.Block().Succs[0]
			if bo.Op == token.EQL {
				succ = iff.Block().Succs[1]
			}
			if len(succ.Preds) == 1 && succ.Dominates(b) {
				return true
			}
		}
	}
	return false
}

// knownNil: v is certainly nil at block b.
func knownNil(v ssa.Value, b *ssa.BasicBlock) bool {
	if ConstNil(v) {
		return true
	}
	if v.Referrers() == nil {
		return false
	}
	for _, r := range *v.Referrers() {
		bo, ok := r.(*ssa.BinOp)
		if !ok || (bo.Op != token.NEQ && bo.Op != token.EQL) {
			continue
		}
		var other ssa.Value
		if bo.X == v {
			other = bo.Y
		} else {
			other = bo.X
		}
		if !ConstNil(other) || bo.Referrers() == nil {
			continue
		}
		for _, rr := range *bo.Referrers() {
			iff, ok := rr.(*ssa.If)
			if !ok {
				continue
			}
			succ := iff.Block().Succs[1]
			if bo.Op == token.EQL {
				succ = iff.Block().Succs[0]
			}
			if len(succ.Preds) == 1 && succ.Dominates(b) {
				return true
			}
		}
	}
	return false
}

// retValue resolves the i-th returned value, looking through named-result allocs.
func retValue(r *ssa.Return, i int) ssa.Value {
	if i < 0 || i >= len(r.Results) {
		return nil
	}
	v := r.Results[i]
	// functions with defers spill results: *t0 = val; rundefers; t = *t0; return t
	if u, ok := v.(*ssa.UnOp); ok && u.Op == token.MUL {
		if a, ok := u.X.(*ssa.Alloc); ok {
			ins := r.Block().Instrs
			for k := len(ins) - 1; k >= 0; k-- {
				if st, ok := ins[k].(*ssa.Store); ok && st.Addr == a {
					return st.Val
				}
			}
		}
	}
	return v
}

// isRejectReturn: the return certainly reports failure (non-nil error, or constant
// false when the function's verdict is a bool and it has no error result).
func isRejectReturn(fn *ssa.Function, r *ssa.Return) bool {
	if ei := errResultIndex(fn); ei >= 0 {
		v := retValue(r, ei)
		return v != nil && knownNonNil(v, r.Block(), 0)
	}
	if bi := boolResultIndex(fn); bi >= 0 {
		v := retValue(r, bi)
		return v != nil && ConstBool(false)(v)
	}
	return false
}

// acceptReturns: every Return that is not certainly a reject.
func acceptReturns(fn *ssa.Function) []ssa.Instruction {
	var out []ssa.Instruction
	eachInstr(fn, func(b *ssa.BasicBlock, ins ssa.Instruction) {
		if r, ok := ins.(*ssa.Return); ok && b != fn.Recover && !isRejectReturn(fn, r) {
			out = append(out, r)
		}
	})
	return out
}

func allReturns(fn *ssa.Function) []*ssa.Return {
	var out []*ssa.Return
	eachInstr(fn, func(b *ssa.BasicBlock, ins ssa.Instruction) {
		if r, ok := ins.(*ssa.Return); ok && b != fn.Recover {
			// the synthetic recover block (functions with defers) is not a source-level exit
			out = append(out, r)
		}
	})
	return out
}

// isRejectBlock: every path from b ends in a reject return or a panic, and no path
// reaches one of the given accept instructions.
func describePath(w *World, fn *ssa.Function, start *ssa.BasicBlock, cut map[Edge]bool, target *ssa.BasicBlock) string {
	// BFS for a shortest path
	prev := map[int]int{start.Index: -1}
	q := []*ssa.BasicBlock{start}
	for len(q) > 0 {
		b := q[0]
		q = q[1:]
		if b == target {
			break
		}
		for _, s := range b.Succs {
			if cut[Edge{b.Index, s.Index}] {
				continue
			}
			if _, ok := prev[s.Index]; ok {
				continue
			}
			prev[s.Index] = b.Index
			q = append(q, s)
		}
	}
	if _, ok := prev[target.Index]; !ok {
		return ""
	}
	var path []string
	for i := target.Index; i != -1; i = prev[i] {
		b := fn.Blocks[i]
		pos := "?"
		for _, ins := range b.Instrs {
			if ins.Pos().IsValid() {
				pos = w.Pos(ins.Pos())
				break
			}
		}
		path = append([]string{fmt.Sprintf("b%d(%s)", i, pos)}, path...)
	}
	if len(path) > 14 {
		path = append(path[:6], append([]string{"..."}, path[len(path)-6:]...)...)
	}
	return strings.Join(path, " -> ")
}

func instrPos(w *World, ins ssa.Instruction) string {
	if ins.Pos().IsValid() {
		return w.Pos(ins.Pos())
	}
	// fall back to any positioned instruction in the block
	for _, i := range ins.Block().Instrs {
		if i.Pos().IsValid() {
			return w.Pos(i.Pos()) + "~"
		}
	}
	return shortName(ins.Parent())
}

func ifPos(w *World, i *ssa.If) string {
	if v, ok := i.Cond.(ssa.Instruction); ok && v.Pos().IsValid() {
		return w.Pos(v.Pos())
	}
	return instrPos(w, i)
}

// accessPath strips loads, field selections and indexing from v and returns the root
// value and the selector path from the root, e.g. (tx, ["Inputs","[]","Mint","Amount"]).
func accessPath(v ssa.Value) (ssa.Value, []string) {
	var rev []string
	for {
		switch x := v.(type) {
		case *ssa.UnOp:
			if x.Op == token.MUL {
				v = x.X
				continue
			}
		case *ssa.FieldAddr:
			if n := fieldNameOf(x.X.Type(), x.Field); n != "" {
				rev = append(rev, n)
			}
			v = x.X
			continue
		case *ssa.Field:
			if n := fieldNameOf(x.X.Type(), x.Field); n != "" {
				rev = append(rev, n)
			}
			v = x.X
			continue
		case *ssa.IndexAddr:
			rev = append(rev, "[]")
			v = x.X
			continue
		case *ssa.Index:
			rev = append(rev, "[]")
			v = x.X
			continue
		case *ssa.Alloc:
			// a local copy of a value (`for _, s := range xs` with s's address taken):
			// exactly one whole-cell store and no element/field stores
			if st := storesTo(x); len(st) == 1 && !hasPartialStores(x) {
				if _, isParam := st[0].(*ssa.Parameter); !isParam {
					v = st[0]
					continue
				}
			}
		}
		break
	}
	for i, j := 0, len(rev)-1; i < j; i, j = i+1, j-1 {
		rev[i], rev[j] = rev[j], rev[i]
	}
	return v, rev
}

func fieldNameOf(t types.Type, idx int) string {
	st, _ := structOf(t)
	if st == nil || idx >= st.NumFields() {
		return "?"
	}
	if st.Field(idx).Embedded() {
		return "" // promoted selectors are transparent: utxo.UTXO.Output.Amount == utxo.Amount
	}
	return st.Field(idx).Name()
}

// Path matches a value read through the selector path (dot separated, "[]" for an
// element) from a root matching root. Loads are transparent.
func Path(root VM, path string) VM {
	return func(v ssa.Value) bool {
		r, p := accessPath(v)
		if strings.Join(p, ".") != path {
			return false
		}
		return root == nil || root(r)
	}
}

// PhiNamed matches the phi of source variable name.
func PhiNamed(name string) VM {
	return func(v ssa.Value) bool {
		p, ok := v.(*ssa.Phi)
		return ok && phiIs(p, name)
	}
}

// phiIs: p is the phi of the local variable the rules call `name`. When the function no longer has
// any phi of that name (the variable was renamed), the phi at the recorded position among the
// function's named phis of the same type (tables/locals.tsv) stands in.
func phiIs(p *ssa.Phi, name string) bool {
	if p.Comment == name {
		return true
	}
	fn := p.Parent()
	if fn == nil || p.Comment == "" || strings.HasPrefix(p.Comment, "range") || p.Comment == "&&" || p.Comment == "||" {
		return false
	}
	ent, ok := localTable()[shortName(fn)+"|phi|"+name]
	if !ok {
		return false
	}
	ord, standIn := 0, ""
	for _, b := range fn.Blocks {
		for _, ins := range b.Instrs {
			q, isPhi := ins.(*ssa.Phi)
			if !isPhi {
				break
			}
			if q.Comment == name {
				return false // the name still exists: no stand-in
			}
			if q.Comment == "" || strings.HasPrefix(q.Comment, "range") || q.Comment == "&&" || q.Comment == "||" || types.TypeString(q.Type(), nil) != ent.typ {
				continue
			}
			if ord == ent.idx {
				standIn = q.Comment
			}
			ord++
		}
	}
	return standIn != "" && p.Comment == standIn && types.TypeString(p.Type(), nil) == ent.typ
}

// allocIs: same for address-taken locals (Alloc comments).
func allocIs(a *ssa.Alloc, name string) bool {
	if a.Comment == name {
		return true
	}
	fn := a.Parent()
	if fn == nil || a.Comment == "" || a.Comment == "complit" || a.Comment == "varargs" {
		return false
	}
	ent, ok := localTable()[shortName(fn)+"|alloc|"+name]
	if !ok {
		return false
	}
	ord, standIn := 0, ""
	for _, b := range fn.Blocks {
		for _, ins := range b.Instrs {
			q, isA := ins.(*ssa.Alloc)
			if !isA {
				continue
			}
			if q.Comment == name {
				return false
			}
			if q.Comment == "" || q.Comment == "complit" || q.Comment == "varargs" || types.TypeString(q.Type(), nil) != ent.typ {
				continue
			}
			if ord == ent.idx {
				standIn = q.Comment
			}
			ord++
		}
	}
	return standIn != "" && a.Comment == standIn && types.TypeString(a.Type(), nil) == ent.typ
}

var (
	localTableOnce sync.Once
	localTableData map[string]paramEntry
)

func localTable() map[string]paramEntry {
	localTableOnce.Do(func() {
		localTableData = map[string]paramEntry{}
		data, err := os.ReadFile(filepath.Join(verifDir(), "tables", "locals.tsv"))
		if err != nil {
			return
		}
		for _, l := range strings.Split(string(data), "\n") {
			f := strings.Split(l, "\t")
			if len(f) != 5 || strings.HasPrefix(l, "#") {
				continue
			}
			var idx int
			fmt.Sscan(f[3], &idx)
			localTableData[f[0]+"|"+f[1]+"|"+f[2]] = paramEntry{idx, f[4]}
		}
	})
	return localTableData
}

// ConstNamed matches a constant operand equal to the named package-level constant
// (resolved through go/types, so renumbering the constant follows automatically).
func (w *World) ConstNamed(pkg, name string) VM {
	obj, _ := w.Obj(pkg, name).(*types.Const)
	return func(v ssa.Value) bool {
		c, ok := v.(*ssa.Const)
		if !ok || obj == nil || c.Value == nil || c.Value.Kind() != obj.Val().Kind() {
			return false
		}
		return constant.Compare(c.Value, token.EQL, obj.Val())
	}
}

func (w *World) ConstVal(pkg, name string) (int64, bool) {
	obj, _ := w.Obj(pkg, name).(*types.Const)
	if obj == nil {
		return 0, false
	}
	return constant.Int64Val(constant.ToInt(obj.Val()))
}

// hasPartialStores: some field/element of the cell is stored to separately.
func hasPartialStores(a *ssa.Alloc) bool {
	if a.Referrers() == nil {
		return false
	}
	for _, r := range *a.Referrers() {
		var addr ssa.Value
		switch x := r.(type) {
		case *ssa.FieldAddr:
			addr = x
		case *ssa.IndexAddr:
			addr = x
		}
		if addr == nil || addr.Referrers() == nil {
			continue
		}
		for _, rr := range *addr.Referrers() {
			if st, ok := rr.(*ssa.Store); ok && st.Addr == addr {
				return true
			}
		}
	}
	return false
}
