package main

import (
	"fmt"
	"go/token"
	"strings"

	"golang.org/x/tools/go/ssa"
)

func init() {
	register("C10", propC10)
	register("C11", propC11)
	register("C29", propC29)
}

// nodeOrderComparator: total order (Timestamp asc, then id string asc).
func nodeOrderOK(shape string) bool {
	return strings.HasPrefix(shape, "Timestamp[i]<Timestamp[j]=>true:bool; Timestamp[i]>Timestamp[j]=>false:bool;")
}

// removalExclusion: fn computes `removing` as removingOrSlashingNodeAt(ts) under
// usePredictiveNodeRemovalSignerSet(ts) and skips cn with cn.IdForNetwork == removing.IdForNetwork.
func removalExclusion(c *Check, f *ssa.Function, ts VM, nodeExpr VM) (bool, string) {
	rem := Call("(*kernel.Node).removingOrSlashingNodeAt", nodeExpr, ts)
	use := Call("(*kernel.Node).usePredictiveNodeRemovalSignerSet", nodeExpr, ts)
	calls := findValues(f, rem)
	if len(calls) != 1 {
		return false, "removingOrSlashingNodeAt(timestamp) call not found"
	}
	if !dominatedByBranch(f, calls[0].(ssa.Instruction).Block(), use, true) {
		return false, "the predictive removal is not conditioned on usePredictiveNodeRemovalSignerSet(timestamp)"
	}
	list := Call("(*kernel.Node).NodesListWithoutState", nodeExpr, ts, ConstBool(false))
	lp := c.RangeLoop(f, "nodes", list)
	if lp == nil {
		return false, "loop over NodesListWithoutState(timestamp, false) not found"
	}
	removing := PhiNamed("removing")
	skip := findIfs(f, BinEither(token.EQL, PathFrom(list, "[].IdForNetwork"), PathFrom(removing, "IdForNetwork")))
	if len(skip) != 1 || !lp.Blocks[skip[0].Block().Index] || skip[0].Block().Succs[0] != lp.Header {
		return false, "the exclusion `cn.IdForNetwork == removing.IdForNetwork => continue` is not in the loop"
	}
	return true, ""
}

func propC10(c *Check) {
	c.Explain = "Decides the arithmetic and structural facts behind quorum intersection: (1) the return expression of ConsensusThreshold is extracted (consensusBase*2/3+1) and evaluated for every base b in [KernelMinimumNodesCount, 64]: for every key-set size n with t <= n <= b, 3*(2t-n) > n, i.e. two signer sets of size >= t inside n keys share more than n/3; below the minimum the function returns 1000, which exceeds the 64-bit mask size, and the minimum test is consensusBase < KernelMinimumNodesCount; (2) key set is a subset of the base set: consensusNodes admits a node only if ConsensusReady (ACCEPTED and genesis or Timestamp+KernelNodeAcceptPeriodMinimum < T), the base counts ACCEPTED nodes with genesis or Timestamp+SnapshotReferenceThreshold*SnapshotRoundGap < T, and the constants satisfy AcceptPeriodMinimum >= ReferenceThreshold*RoundGap; with final=true pledging nodes are not counted; (3) ConsensusThreshold and consensusNodes read the same list NodesListWithoutState(T,false) and apply the same predictive-removal exclusion; (4) KernelMaximumNodesCount <= 64. KNOWN FINDING (reported, not repaired): for round 0 of a pledging chain consensusNodes appends the pledging node itself, so the key set has b+1 keys while the threshold is computed from b; for b mod 3 != 0 (e.g. b=7, t=5, n=8) two certificates can intersect in no more than n/3 keys. Pairing: at every cacheVerifyCosi call site in the module (verifyFinalization current rule and legacy retry, cosiHandleResponse) the threshold argument is ConsensusThreshold(T, _) and the key vector is ConsensusKeys(round, T) for the same T. The delay after which an accepted node enters the threshold base is not longer than the delay after which it enters the signer key set."
	c.NotCov = "that the sets coincide at every timestamp boundary of every history (C11 decides determinism, not equality across nodes)."
	c.Floor(10)
	w := c.W
	// ---- threshold / key-set pairing at every certificate verification: the threshold handed to
	// cacheVerifyCosi is ConsensusThreshold(T, _) for the same T whose ConsensusKeys(round, T)
	// produced the key vector it is checked against (a threshold from one membership state applied
	// to the key set of another loses the intersection bound).
	{
		n := 0
		for _, fn := range w.ModuleFuncs() {
			if shortName(fn) == "(*kernel.Node).cacheVerifyCosi" {
				continue
			}
			for _, ci := range findCalls(fn, "(*kernel.Node).cacheVerifyCosi") {
				n++
				c.Sites++
				a := ci.Common().Args
				ok, why := false, "key vector is not the second result of ConsensusKeys"
				if ex, isEx := a[4].(*ssa.Extract); isEx && ex.Index == 1 {
					if ck, isCall := ex.Tuple.(*ssa.Call); isCall && calleeName(&ck.Call) == "(*kernel.Chain).ConsensusKeys" {
						why = "threshold is not ConsensusThreshold of the same timestamp"
						if th, isTh := a[5].(*ssa.Call); isTh && calleeName(&th.Call) == "(*kernel.Node).ConsensusThreshold" {
							ok = sameAccess(th.Call.Args[1], ck.Call.Args[2])
						}
					}
				}
				c.Require(ok, "pairing", shortName(fn)+"|cacheVerifyCosi threshold and key set from one timestamp", "the threshold argument is ConsensusThreshold(T, _) and the key vector is ConsensusKeys(round, T) for the same T", why, instrPos(w, ci))
			}
		}
		c.Require(n >= 3, "floor", "kernel|certificate verifications located", "at least three cacheVerifyCosi call sites (two in verifyFinalization, one in cosiHandleResponse)", "found "+itoa(n))
	}
	f := c.F("(*kernel.Node).ConsensusThreshold")
	if f != nil {
		base := PhiNamed("consensusBase")
		minC, _ := w.ConstVal("config", "KernelMinimumNodesCount")
		var exprRet, lowRet *ssa.Return
		for _, r := range allReturns(f) {
			v := retValue(r, 0)
			if n, isC := constIntOf(v); isC {
				if n == 1000 {
					lowRet = r
				}
				continue
			}
			exprRet = r
		}
		okLow := lowRet != nil && dominatedByBranch(f, lowRet.Block(), Bin(token.LSS, base, w.ConstNamed("config", "KernelMinimumNodesCount")), true)
		c.Require(okLow, "shape", shortName(f)+"|below minimum", "when consensusBase < KernelMinimumNodesCount the threshold returned is 1000 (> 64 mask positions: no certificate can meet it)", "below-minimum return changed")
		if exprRet == nil {
			c.Fail("anchor", shortName(f)+"|threshold expression", "a computed threshold return", "not found")
		} else {
			leaves := []leaf{{base, "b"}}
			bad, badPledge := "", ""
			total := 0
			for b := minC; b <= 64; b++ {
				t, err := evalInt(retValue(exprRet, 0), leaves, map[string]int64{"b": b})
				if err != nil {
					c.Undecided("finite-eval", shortName(f)+"|threshold expression", "the threshold is an integer expression of consensusBase", err.Error())
					bad = "x"
					break
				}
				for n := t; n <= b+1; n++ {
					total++
					ok := 3*(2*t-n) > n
					if !ok && n <= b && bad == "" {
						bad = "b=" + itoa(int(b)) + " t=" + itoa(int(t)) + " n=" + itoa(int(n))
					}
					if !ok && n == b+1 && badPledge == "" {
						badPledge = "b=" + itoa(int(b)) + " t=" + itoa(int(t)) + " n=" + itoa(int(n))
					}
				}
				if t <= 0 || t > b {
					bad = "threshold " + itoa(int(t)) + " outside (0,b] for b=" + itoa(int(b))
				}
			}
			c.Sites += total
			c.Require(bad == "" && minC >= 4, "finite-eval", shortName(f)+"|intersection > n/3 for key sets within the base", "for every base b in [min,64], t = threshold(b) and every key-set size t <= n <= b: 3*(2t-n) > n", "fails at "+bad)
			// the pledging chain's round 0 adds one key outside the base
			cn := c.F("(*kernel.Chain).consensusNodes")
			extra := false
			if cn != nil {
				for _, v := range findValues(cn, Call("builtin:append", nil, Has(Path(Param("chain"), "ConsensusInfo")))) {
					if dominatedByBranch(cn, v.(ssa.Instruction).Block(), Bin(token.EQL, Param("round"), ConstInt(0)), true) {
						extra = true
					}
				}
			}
			if extra {
				c.Require(badPledge == "", "finite-eval", shortName(f)+"|pledging-round0-keyset-base+1", "with the pledging node appended to the key set (n = b+1, round 0 of a pledging chain) two signer sets meeting threshold(b) still share more than n/3", "fails at "+badPledge+": threshold is computed from the base without the extra key")
			}
		}
		ok, why := removalExclusion(c, f, Param("timestamp"), Param("node"))
		c.Require(ok, "sibling", shortName(f)+"|removal exclusion", "the base excludes the predictable removal candidate of the timestamp's operation window", why)
		// accepted-case readiness predicate in the base
		list := Call("(*kernel.Node).NodesListWithoutState", Param("node"), Param("timestamp"), ConstBool(false))
		thr := Bin(token.MUL, nil, nil)
		_ = thr
		accIf := findIfs(f, Bin(token.LSS, Bin(token.ADD, PathFrom(list, "[].Timestamp"), AnyV), Param("timestamp")))
		c.Require(len(accIf) >= 2, "shape", shortName(f)+"|maturity tests", "the base counts a node only when cn.Timestamp + <period> < timestamp (or genesis)", "maturity comparison changed")
		// pledging nodes are not counted for final certificates
		var pledInc []ssa.Instruction
		eachInstr(f, func(b *ssa.BasicBlock, ins ssa.Instruction) {
			if bo, ok := ins.(*ssa.BinOp); ok && bo.Op == token.ADD && base(bo.X) && ConstInt(1)(bo.Y) {
				if dominatedByBranch(f, b, BinEither(token.EQL, PathFrom(list, "[].State"), w.ConstNamed("common", "NodeStatePledging")), true) {
					pledInc = append(pledInc, ins)
				}
			}
		})
		c.MustPass(f, Gate{Name: "final => pledging not counted", RejectOnTrue: true, Cond: Param("final")}, pledInc, "counting a pledging node")
	}
	if f := c.F("(*kernel.Chain).consensusNodes"); f != nil {
		ok, why := removalExclusion(c, f, Param("timestamp"), Path(Param("chain"), "node"))
		c.Require(ok, "sibling", shortName(f)+"|removal exclusion", "the key set excludes the same predictable removal candidate as the base", why)
		list := Call("(*kernel.Node).NodesListWithoutState", nil, Param("timestamp"), ConstBool(false))
		lp := c.RangeLoop(f, "nodes#1/1", list)
		c.LoopGateForAppend(f, lp, Gate{Name: "ConsensusReady(cn, timestamp) true", RejectOnTrue: false, Cond: Call("(*kernel.Node).ConsensusReady", nil, PathFrom(list, "[]"), Param("timestamp"))}, "participants", "only consensus-ready nodes enter the key set")
	}
	if f := c.F("(*kernel.Node).ConsensusReady"); f != nil {
		var trueRets []ssa.Instruction
		for _, r := range allReturns(f) {
			if !ConstBool(false)(retValue(r, 0)) {
				trueRets = append(trueRets, r)
			}
		}
		c.MustPass(f, Gate{Name: "cn.State != ACCEPTED => false", RejectOnTrue: true, Cond: BinEither(token.NEQ, Path(Param("cn"), "State"), w.ConstNamed("common", "NodeStateAccepted"))}, trueRets, "being ready")
		c.MustPassAny(f, nil, "genesis | Timestamp + AcceptPeriodMinimum < timestamp", []Gate{
			{Name: "genesisNodesMap[id]", RejectOnTrue: false, Cond: lookupOf(Path(Param("node"), "genesisNodesMap"))},
			{Name: "cn.Timestamp + KernelNodeAcceptPeriodMinimum < timestamp", RejectOnTrue: false, Cond: Bin(token.LSS, Bin(token.ADD, Path(Param("cn"), "Timestamp"), w.ConstNamed("config", "KernelNodeAcceptPeriodMinimum")), Param("timestamp"))},
		}, trueRets, "being ready")
	}
	ap, ok1 := w.ConstVal("config", "KernelNodeAcceptPeriodMinimum")
	rt, ok2 := w.ConstVal("config", "SnapshotReferenceThreshold")
	rg, ok3 := w.ConstVal("config", "SnapshotRoundGap")
	mx, ok4 := w.ConstVal("config", "KernelMaximumNodesCount")
	// the same fact read from the code: the delay after which an accepted node enters the threshold
	// base (ConsensusThreshold) is not longer than the delay after which it enters the key set
	// (ConsensusReady); otherwise the key vector can hold a member the base does not count
	delayOf := func(fn *ssa.Function, state string) (int64, bool) {
		if fn == nil {
			return 0, false
		}
		best, found := int64(0), false
		for _, iff := range findIfs(fn, func(v ssa.Value) bool {
			bo, ok := v.(*ssa.BinOp)
			if !ok || bo.Op != token.LSS || !Param("timestamp")(bo.Y) {
				return false
			}
			ad, ok := bo.X.(*ssa.BinOp)
			if !ok || ad.Op != token.ADD {
				return false
			}
			_, p := accessPath(ad.X)
			_, isC := constIntOf(ad.Y)
			return isC && len(p) > 0 && p[len(p)-1] == "Timestamp"
		}) {
			// restrict to the branch guarded by the named state (if any)
			if state != "" && !dominatedByBranch(fn, iff.Block(), BinEither(token.EQL, AnyV, c.W.ConstNamed("common", state)), true) {
				continue
			}
			k, _ := constIntOf(iff.Cond.(*ssa.BinOp).X.(*ssa.BinOp).Y)
			if !found || k > best {
				best, found = k, true
			}
		}
		return best, found
	}
	dBase, okB := delayOf(c.W.Fn("(*kernel.Node).ConsensusThreshold"), "NodeStateAccepted")
	dKeys, okK := delayOf(c.W.Fn("(*kernel.Node).ConsensusReady"), "")
	c.Require(okB && okK && dBase <= dKeys, "sibling", "kernel|accepted node: base delay <= key-set delay", "an accepted node is counted in the threshold base no later than it becomes a member of the signer key set", fmt.Sprintf("base delay %d (found=%v), key-set delay %d (found=%v)", dBase, okB, dKeys, okK))
	c.Require(ok1 && ok2 && ok3 && ap >= rt*rg, "constfact", "config|ready implies counted", "KernelNodeAcceptPeriodMinimum >= SnapshotReferenceThreshold*SnapshotRoundGap (a ready node is always counted in the base)", "constants: "+itoa(int(ap))+" vs "+itoa(int(rt*rg)))
	c.Require(ok4 && mx <= 64, "constfact", "config|nodes fit the mask", "KernelMaximumNodesCount <= 64 (mask width)", "maximum is "+itoa(int(mx)))
}

func propC11(c *Check) {
	c.Explain = "Decides determinism and the 'earlier records only' gates of historical views: (1) purity: NodesListWithoutState, nodeSequenceWithoutState, ConsensusThreshold, consensusNodes, ConsensusKeys, PledgingNode, electSnapshotNode and storage readCustodianAccount reach no clock, randomness, environment, goroutine or channel operation; the single map iteration (nodeSequenceWithoutState) only appends to a slice that is sorted with a total-order comparator (Timestamp, then id string) before any use; (2) record inclusion is gated by the query timestamp: NodesListWithoutState returns a sequence only under seq.Timestamp < threshold, nodeSequenceWithoutState admits a record only past 'n.Timestamp >= threshold => break', readCustodianAccount parses an item only past 'key timestamp > ts => break' and storage readAllNodes skips ts > threshold; (3) custodian cache: the cache key struct holds the transaction hash and the genesis flag, and both the hit and the miss path return through cloneCustodianUpdate (no caller can alias cached state). (4) ownership: every store to a field of a *kernel.CNode anywhere in the module targets a CNode allocated by the storing function (copy or literal; the sequence builder is the one tabled exception), so no view mutates the shared records of the state sequences; (5) custodian history is append-only in time: the guard fragment of writeCustodianNodes is interpreted over all orderings of prev.Timestamp vs snapTime and custodian (in)equality and reaches the record write only with prev == nil or prev.Timestamp < snapTime."
	c.NotCov = "append-invariance over actual histories (that later writes never insert earlier-timestamped records is C27/C28's guard, not decided here)."
	c.Floor(12)
	w := c.W
	mapOK := map[string]bool{"(*kernel.Node).nodeSequenceWithoutState": true}
	for _, n := range []string{"(*kernel.Node).NodesListWithoutState", "(*kernel.Node).nodeSequenceWithoutState", "(*kernel.Node).ConsensusThreshold", "(*kernel.Chain).consensusNodes", "(*kernel.Chain).ConsensusKeys", "(*kernel.Node).PledgingNode", "(*kernel.Node).electSnapshotNode"} {
		c.Pure(c.F(n), nil, mapOK, "a historical view is a function of the loaded membership records and the timestamp")
		c.NoSharedWrites(c.F(n), "kernel", []string{"logger."}, "a view leaves no trace in node or chain state that a later query could observe")
	}
	stateSequencesRule(c)
	c.Pure(c.F("storage.readCustodianAccount"), []string{"(*github.com/dgraph-io/badger", "(*sync.Map)"}, nil, "custodian lookups depend on stored records and the timestamp (Badger and sync.Map are the boundary)")
	// the one map range is order-insensitive
	if f := c.F("(*kernel.Node).nodeSequenceWithoutState"); f != nil {
		nRanges := 0
		eachInstr(f, func(b *ssa.BasicBlock, ins ssa.Instruction) {
			if r, ok := ins.(*ssa.Range); ok && strings.HasPrefix(r.X.Type().Underlying().String(), "map[") {
				nRanges++
			}
		})
		sorts := findCalls(f, "sort.Slice")
		ok := nRanges == 1 && len(sorts) == 1
		shape := ""
		if ok {
			mc, isMc := sorts[0].Common().Args[1].(*ssa.MakeClosure)
			ok = isMc
			if isMc {
				shape = comparatorShape(mc.Fn.(*ssa.Function))
				fin := allReturns(mc.Fn.(*ssa.Function))
				last := fin[len(fin)-1]
				ok = nodeOrderOK(shape) && Bin(token.LSS, Call("(crypto.Hash).String"), Call("(crypto.Hash).String"))(retValue(last, 0))
			}
		}
		// the map range only appends to nodes; sort dominates the index assignment loop and the return
		if ok {
			mr := c.RangeLoop(f, "filter", func(v ssa.Value) bool { _, isMk := v.(*ssa.MakeMap); return isMk })
			if mr != nil {
				for bi := range mr.Blocks {
					for _, ins := range f.Blocks[bi].Instrs {
						switch x := ins.(type) {
						case *ssa.Store:
							if _, fresh := accessPath(x.Addr); fresh == nil {
							}
							r, _ := accessPath(x.Addr)
							_, isAlloc := r.(*ssa.Alloc)
							if !isAlloc {
								ok = false
							}
						case *ssa.MapUpdate:
							ok = false
						}
					}
				}
				for _, r := range allReturns(f) {
					if !sorts[0].Block().Dominates(r.Block()) {
						ok = false
					}
				}
			} else {
				ok = false
			}
		}
		c.Require(ok, "order-leak", shortName(f)+"|map range then total-order sort", "the only map iteration fills a fresh slice that is sorted by (Timestamp, id string) before it is used or returned", "shape: "+shape)
		lp := c.RangeLoop(f, "all nodes", Path(Param("node"), "allNodesSortedWithState"))
		c.LoopGateForMapUpdate(f, lp, Gate{Name: "n.Timestamp >= threshold => break", RejectOnTrue: true, Cond: Bin(token.GEQ, Path(Param("node"), "allNodesSortedWithState.[].Timestamp"), Param("threshold"))}, "only records before the threshold are used")
	}
	if f := c.F("(*kernel.Node).NodesListWithoutState"); f != nil {
		var nonNil []ssa.Instruction
		for _, r := range allReturns(f) {
			if !ConstNil(retValue(r, 0)) {
				nonNil = append(nonNil, r)
			}
		}
		seq := PhiNamed("sequences")
		c.MustPass(f, Gate{Name: "seq.Timestamp < threshold", RejectOnTrue: false, Cond: Bin(token.LSS, PathFrom(seq, "[].Timestamp"), Param("threshold"))}, nonNil, "returning a membership list")
		for _, r := range nonNil {
			c.Require(PathFrom(seq, "[].NodesWithoutState")(retValue(r.(*ssa.Return), 0)), "provenance", shortName(f)+"|returned list", "the list returned is the sequence entry's own list", "another list is returned", instrPos(w, r))
		}
		// scanning from the newest sequence downwards: first match is the latest record before threshold
		lp := c.ForLoop(f, "scan", Bin(token.GTR, nil, ConstInt(0)))
		c.Require(lp != nil, "shape", shortName(f)+"|descending scan", "sequences are scanned from the newest to the oldest", "scan changed")
	}
	if f := c.F("storage.readCustodianAccount"); f != nil {
		ps := callInstrs(findCalls(f, "storage.parseCustodianUpdateItem"))
		c.MustPass(f, Gate{Name: "key timestamp > ts => break", RejectOnTrue: true, Cond: Bin(token.GTR, Call("storage.graphCustodianAccountTimestamp"), Param("ts"))}, ps, "using a custodian record")
		rev := false
		eachInstr(f, func(b *ssa.BasicBlock, ins ssa.Instruction) {
			if st, ok := ins.(*ssa.Store); ok {
				if fa, ok := st.Addr.(*ssa.FieldAddr); ok && fieldNameOf(fa.X.Type(), fa.Field) == "Reverse" && !ConstBool(false)(st.Val) {
					rev = true
				}
			}
		})
		c.Require(!rev, "shape", shortName(f)+"|forward scan", "custodian records are scanned in increasing timestamp order (the last one not after ts wins)", "Reverse set")
	}
	// ---- storage readAllNodes: a record later than the threshold influences nothing — inside the key
	// scan every accumulation (append, map update) is reachable only past `ts > threshold => skip`
	if f := c.F("storage.readAllNodes"); f != nil {
		scan := c.ForOrRangeLoopWithCall(f, "key scan", "(*github.com/dgraph-io/badger/v4.Iterator).Next")
		var acc []ssa.Instruction
		if scan != nil {
			for bi := range scan.Blocks {
				for _, ins := range f.Blocks[bi].Instrs {
					switch x := ins.(type) {
					case *ssa.MapUpdate:
						acc = append(acc, ins)
					case *ssa.Call:
						if calleeName(&x.Call) == "builtin:append" {
							acc = append(acc, ins)
						}
					}
				}
			}
		}
		ts := Extract(1, Call("storage.nodeSignerFromStateKey"))
		c.MustPass(f, Gate{Name: "ts > threshold => skip", RejectOnTrue: true, Cond: Bin(token.GTR, ts, Param("threshold"))}, acc, "any accumulation inside the key scan (later records cannot change a historical answer)")
	}
	// ---- CNode records are immutable after construction: every store to a field of a
	// *kernel.CNode in the whole module targets an object allocated by the storing function
	// (a copy or a fresh literal). A view that wrote into the shared records of
	// node.nodeStateSequences would make later answers depend on which views ran before.
	{
		builders := map[string]string{
			"(*kernel.Node).nodeSequenceWithoutState": "assigns ConsensusIndex to the elements of the list it has just built from fresh &CNode{} literals",
		}
		n, bad := 0, []string{}
		var sites []string
		for _, fn := range w.ModuleFuncs() {
			eachInstr(fn, func(b *ssa.BasicBlock, ins ssa.Instruction) {
				st, ok := ins.(*ssa.Store)
				if !ok {
					return
				}
				fa, ok := st.Addr.(*ssa.FieldAddr)
				if !ok || typeShort(fa.X.Type()) != "*kernel.CNode" {
					return
				}
				n++
				c.Sites++
				r, p := accessPath(st.Addr)
				_, isAlloc := r.(*ssa.Alloc)
				local := isAlloc && len(p) == 1
				if isAlloc && len(p) == 1 {
					// the allocation itself is the CNode (copy or literal), not a variable holding a shared pointer
					local = typeShort(r.Type()) == "*kernel.CNode"
				}
				if local {
					sites = append(sites, instrPos(w, ins))
					return
				}
				if _, okb := builders[shortName(fn)]; okb && isAlloc {
					sites = append(sites, instrPos(w, ins))
					return
				}
				bad = append(bad, shortName(fn)+" writes "+strings.Join(p, ".")+" of a CNode it did not allocate at "+instrPos(w, ins))
			})
		}
		c.Require(n >= 10 && len(bad) == 0, "ownership", "kernel.CNode|fields written only on objects allocated by the writer",
			"every store to a CNode field targets a CNode allocated in the same function (copy / literal); the one builder exception is tabled with its reason",
			strings.Join(bad, "; ")+" (stores examined: "+itoa(n)+")", sites...)
	}
	// ---- custodian history is append-only in time: writeCustodianNodes reaches the record write
	// only when there is no previous record or the previous record is strictly older. Decided by
	// interpreting the guard fragment over every ordering of (prev.Timestamp, snapTime) and every
	// equality outcome of the custodian comparison.
	if f := c.F("storage.writeCustodianNodes"); f != nil {
		prev := Extract(0, Call("storage.readCustodianAccount"))
		now := Extract(0, Call("common.ParseCustodianUpdateNodesExtra"))
		prevNil := BinEither(token.EQL, prev, ConstNil)
		starts := findIfs(f, prevNil)
		negated := false
		if len(starts) == 0 {
			// `if prev != nil { ... }` form of the same test
			prevNil = BinEither(token.NEQ, prev, ConstNil)
			starts = findIfs(f, prevNil)
			negated = true
		}
		sets := findCalls(f, "(*github.com/dgraph-io/badger/v4.Txn).Set")
		if len(starts) != 1 || len(sets) != 1 {
			c.Undecided("anchor", shortName(f)+"|prev == nil test / single Set", "one `prev == nil` test and one record write", "found "+itoa(len(starts))+" / "+itoa(len(sets)))
		} else {
			setB := sets[0].(ssa.Instruction).Block()
			leaves := []leaf{
				{prevNil, "b:prevNil"},
				{Path(prev, "Timestamp"), "prevTs"},
				{Param("snapTime"), "snapTime"},
				{Call("(common.Address).String", Has(Path(now, "Custodian"))), "nowCust"},
				{Call("(common.Address).String", Has(Path(prev, "Custodian"))), "prevCust"},
			}
			stop := func(b *ssa.BasicBlock) bool { return b == setB }
			total, writes := 0, 0
			bad, evalErr := "", ""
			for pn := int64(0); pn <= 1 && evalErr == ""; pn++ {
				for pt := int64(0); pt <= 2; pt++ {
					for nc := int64(0); nc <= 1; nc++ {
						for pc := int64(0); pc <= 1; pc++ {
							leafV := pn
							if negated {
								leafV = 1 - pn
							}
							env := map[string]int64{"b:prevNil": leafV, "prevTs": pt, "snapTime": 1, "nowCust": nc, "prevCust": pc}
							tb, err := runFragment(starts[0].Block(), leaves, env, stop)
							if err != nil {
								evalErr = err.Error()
								break
							}
							total++
							if tb == setB {
								writes++
								if pn == 0 && pt >= 1 && bad == "" {
									bad = fmt.Sprintf("prev != nil, prev.Timestamp=%d, snapTime=1, same custodian=%v reaches the record write", pt, nc == pc)
								}
							}
						}
					}
				}
			}
			c.Sites += total
			if evalErr != "" {
				c.Undecided("finite-eval", shortName(f)+"|write only after strictly older history", "the guard fragment is interpretable", evalErr, c.W.Pos(f.Pos()))
			} else {
				c.Require(bad == "" && writes > 0, "finite-eval", shortName(f)+"|write only after strictly older history",
					"over all orderings of prev.Timestamp vs snapTime and custodian (in)equality, the record for snapTime is written only when prev == nil or prev.Timestamp < snapTime (an existing record at that timestamp is never replaced, so answers already given stay valid)",
					bad+fmt.Sprintf(" (%d valuations, %d reach the write)", total, writes), instrPos(w, sets[0]))
			}
		}
	}
	if f := c.F("storage.parseCustodianUpdateItem"); f != nil {
		n := 0
		okc := true
		for _, r := range allReturns(f) {
			v := retValue(r, 0)
			if ConstNil(v) {
				continue
			}
			n++
			if !Call("storage.cloneCustodianUpdate")(v) {
				okc = false
			}
		}
		c.Require(okc && n == 2, "shape", shortName(f)+"|clone on hit and miss", "both the cache-hit and the cache-miss path return cloneCustodianUpdate(...) (cached state is never aliased)", "a path returns the cached object itself")
		// cache key fields
		keyOK := false
		if o := w.Obj("storage", "custodianCacheKey"); o != nil {
			if st, _ := structOf(o.Type()); st != nil {
				names := map[string]string{}
				for i := 0; i < st.NumFields(); i++ {
					names[st.Field(i).Name()] = typeShort(st.Field(i).Type())
				}
				keyOK = names["transaction"] == "crypto.Hash" && names["genesis"] == "bool"
			}
		}
		c.Require(keyOK, "typefact", "storage.custodianCacheKey", "the cache key distinguishes the transaction hash and the genesis flag (the two inputs of parsing)", "key fields changed")
		// the key literal is filled from the item's hash and the genesis parameter
		okl := false
		eachInstr(f, func(b *ssa.BasicBlock, ins ssa.Instruction) {
			if st, ok := ins.(*ssa.Store); ok {
				if fa, ok := st.Addr.(*ssa.FieldAddr); ok && typeShort(fa.X.Type()) == "*storage.custodianCacheKey" && fieldNameOf(fa.X.Type(), fa.Field) == "genesis" {
					okl = Param("genesis")(st.Val)
				}
			}
		})
		c.Require(okl, "provenance", shortName(f)+"|key.genesis", "the key's genesis flag is the parsing flag", "key literal changed")
	}
}

func propC29(c *Check) {
	c.Explain = "Decides determinism and the exclusion structure of operator election: (1) purity of electSnapshotNode and checkRemovePossibility (the result depends on operation, timestamp, epoch and the membership list only); (2) the elected node is accepted[idx] where accepted = NodesListWithoutState(now,true)[1:len-1] (never the oldest or the newest accepted node), guarded by len >= KernelMinimumNodesCount so the modulus is >= KernelMinimumNodesCount-2 > 0, idx = (day + operation) % len; operations outside the consensus class elect nobody; (3) the removal candidate is element 0 of the ACCEPTED nodes of NodesListWithoutState(now,false) in list order (or the node of the re-submitted transaction), and candi.IdForNetwork == nodeId rejects; no removal while a node is pledging, outside the accept window, or with <= minimum accepted nodes; (4) hour windows from typed constants: mint [7,9] and accept [13,19] are disjoint and inside [0,23]; checkConsensusAcceptHour uses both bounds inclusively; checkConsensusPledgeHour is the complement of both windows. Enforcement: validateKernelSnapshot honours the verdict of each of the six per-class snapshot validators, and the mint / pledge / remove / custodian-update validators reject unless the snapshot's node is electSnapshotNode(<class>, timestamp); every state-sequence table entry is recomputed from the records; the election memoises nothing (no cache use, no shared writes)."
	c.NotCov = "that all nodes hold the same membership list at that time (C11 decides determinism given the list)."
	c.Floor(12)
	w := c.W
	for _, n := range []string{"(*kernel.Node).electSnapshotNode", "(*kernel.Node).checkRemovePossibility"} {
		c.Pure(c.F(n), nil, map[string]bool{"(*kernel.Node).nodeSequenceWithoutState": true}, "election is a function of (operation, time, epoch, membership list)")
		c.NoSharedWrites(c.F(n), "kernel", []string{"logger."}, "the election memoises nothing: the same (membership, time) gives the same node on every process")
	}
	stateSequencesRule(c)
	// the per-class snapshot validators (which enforce the elected operator and the operation
	// windows) are honoured: in validateKernelSnapshot no accepting return is reachable from a
	// validator call without passing its `err != nil => reject` edge
	if f := c.F("(*kernel.Node).validateKernelSnapshot"); f != nil {
		n := 0
		for _, v := range []string{"validateMintSnapshot", "validateNodePledgeSnapshot", "validateNodeCancelSnapshot", "validateNodeAcceptSnapshot", "validateNodeRemoveSnapshot", "validateCustodianUpdateNodes"} {
			for _, ci := range findCalls(f, "(*kernel.Node)."+v) {
				n++
				call := ci.(*ssa.Call)
				c.mustPassFrom(f, call.Block(), Gate{Name: v + " err != nil => reject", RejectOnTrue: true, Cond: BinEither(token.NEQ, Is(call), ConstNil)}, acceptReturns(f), "accepting the snapshot after "+v)
			}
		}
		c.Require(n == 6, "shape", shortName(f)+"|six class validators", "mint, pledge, cancel, accept, remove and custodian update each have their snapshot validator called", "found "+itoa(n))
	}
	// only the elected node may propose an elected operation: each validator rejects unless the
	// snapshot's node is electSnapshotNode(<its class>, timestamp)
	for _, e := range []struct{ fn, class, snap string }{
		{"(*kernel.Node).validateMintSnapshot", "TransactionTypeMint", "snap"},
		{"(*kernel.Node).validateNodePledgeSnapshot", "TransactionTypeNodePledge", "s"},
		{"(*kernel.Node).validateNodeRemoveSnapshot", "TransactionTypeNodeRemove", "s"},
		{"(*kernel.Node).validateCustodianUpdateNodes", "TransactionTypeCustodianUpdateNodes", "s"},
	} {
		if f := c.F(e.fn); f != nil {
			eid := Call("(*kernel.Node).electSnapshotNode", Param("node"), w.ConstNamed("common", e.class))
			c.MustPass(f, Gate{Name: "electSnapshotNode(" + e.class + ", timestamp) != snapshot.NodeId => reject", RejectOnTrue: true,
				Cond: BinEither(token.NEQ, eid, Path(Param(e.snap), "NodeId"))}, acceptReturns(f), "accepting the operation's snapshot")
		}
	}
	if f := c.F("(*kernel.Node).electSnapshotNode"); f != nil {
		list := Call("(*kernel.Node).NodesListWithoutState", Param("node"), Param("now"), ConstBool(true))
		sl := func(v ssa.Value) bool {
			s, ok := v.(*ssa.Slice)
			return ok && list(s.X) && s.Low != nil && ConstInt(1)(s.Low) && s.High != nil && Bin(token.SUB, Len(list), ConstInt(1))(s.High)
		}
		var hashRets []ssa.Instruction
		okSel := true
		for _, r := range allReturns(f) {
			v := retValue(r, 0)
			if rr, p := accessPath(v); len(p) == 2 && p[0] == "[]" && p[1] == "IdForNetwork" && sl(rr) {
				hashRets = append(hashRets, r)
				// index = (day + int(operation)) % len(accepted')
				if !hasIndex(v, Bin(token.REM, Bin(token.ADD, nil, Conv(Param("operation"))), Len(sl))) {
					okSel = false
				}
			}
		}
		c.Require(len(hashRets) == 1 && okSel, "shape", shortName(f)+"|interior election", "the elected id is accepted[1:len-1][(day+operation) % len], accepted = NodesListWithoutState(now, true)", "selection expression changed")
		c.MustPass(f, Gate{Name: "len(accepted) < KernelMinimumNodesCount => panic", RejectOnTrue: true, Cond: Bin(token.LSS, Len(list), w.ConstNamed("config", "KernelMinimumNodesCount"))}, hashRets, "electing")
		mn, _ := w.ConstVal("config", "KernelMinimumNodesCount")
		c.Require(mn-2 > 0, "constfact", "config|modulus positive", "KernelMinimumNodesCount - 2 > 0 (the interior slice is never empty)", "minimum is "+itoa(int(mn)))
		fd, p := w.FuncDecl("kernel", "Node", "electSnapshotNode")
		if fd != nil {
			sws := SwitchOn(p, fd, TagVar("operation"))
			var ops []string
			defRet := false
			if len(sws) == 1 {
				for _, cl := range sws[0] {
					if cl.Default {
						defRet = cl.Body == "return"
					} else if cl.Body == "empty" {
						ops = append(ops, cl.Consts...)
					}
				}
			}
			want := []string{"TransactionTypeMint", "TransactionTypeNodeRemove", "TransactionTypeNodePledge", "TransactionTypeCustodianUpdateNodes", "TransactionTypeCustodianSlashNodes"}
			c.Require(sameSet(ops, want) && defRet, "classtable", shortName(f)+"|elected operations", "exactly {mint, node remove, node pledge, custodian update, custodian slash} are elected; any other operation elects nobody", "found: "+strings.Join(ops, ","))
		}
	}
	if f := c.F("(*kernel.Node).checkRemovePossibility"); f != nil {
		var accepts []ssa.Instruction
		for _, r := range acceptReturns(f) {
			if !ConstNil(retValue(r.(*ssa.Return), 0)) {
				accepts = append(accepts, r)
			}
		}
		list := Call("(*kernel.Node).NodesListWithoutState", Param("node"), Param("now"), ConstBool(false))
		candi := PhiNamed("candi")
		c.MustPass(f, Gate{Name: "candi.IdForNetwork == nodeId => reject", RejectOnTrue: true, Cond: BinEither(token.EQL, PathFrom(candi, "IdForNetwork"), Param("nodeId"))}, accepts, "naming a removal candidate (never handled by the node itself)")
		c.MustPass(f, Gate{Name: "PledgingNode(now) != nil => reject", RejectOnTrue: true, Cond: BinEither(token.NEQ, Call("(*kernel.Node).PledgingNode", Param("node"), Param("now")), ConstNil)}, accepts, "naming a removal candidate")
		c.MustPass(f, Gate{Name: "checkConsensusAcceptHour(now) true", RejectOnTrue: false, Cond: Call("(*kernel.Node).checkConsensusAcceptHour", Param("node"), Param("now"))}, accepts, "naming a removal candidate")
		c.MustPass(f, Gate{Name: "len(accepted) <= KernelMinimumNodesCount => reject", RejectOnTrue: true, Cond: Bin(token.LEQ, Len(PhiNamed("accepted")), w.ConstNamed("config", "KernelMinimumNodesCount"))}, accepts, "naming a removal candidate")
		// default candidate = accepted[0]; accepted collects ACCEPTED nodes in list order
		okc := false
		for _, v := range findValues(f, candi) {
			for _, ed := range v.(*ssa.Phi).Edges {
				if r, p := accessPath(ed); PhiNamed("accepted")(r) && len(p) == 1 && p[0] == "[]" && hasIndex(ed, ConstInt(0)) {
					okc = true
				}
			}
		}
		lp := c.RangeLoop(f, "nodes", list)
		c.Accumulator2(f, lp, "accepted", Call("builtin:append", PhiNamed("accepted"), Has(PathFrom(list, "[]"))), BinEither(token.EQL, PathFrom(list, "[].State"), w.ConstNamed("common", "NodeStateAccepted")))
		c.Require(okc, "provenance", shortName(f)+"|oldest accepted", "the default removal candidate is accepted[0], the oldest ACCEPTED node in membership-list order", "candidate selection changed")
	}
	vals := map[string]int64{}
	okAll := true
	for _, n := range []string{"KernelMintTimeBegin", "KernelMintTimeEnd", "KernelNodeAcceptTimeBegin", "KernelNodeAcceptTimeEnd"} {
		v, ok := w.ConstVal("config", n)
		vals[n] = v
		okAll = okAll && ok
	}
	c.Require(okAll && 0 <= vals["KernelMintTimeBegin"] && vals["KernelMintTimeBegin"] <= vals["KernelMintTimeEnd"] && vals["KernelMintTimeEnd"] < vals["KernelNodeAcceptTimeBegin"] && vals["KernelNodeAcceptTimeBegin"] <= vals["KernelNodeAcceptTimeEnd"] && vals["KernelNodeAcceptTimeEnd"] <= 23,
		"constfact", "config|hour windows", "0 <= mint begin <= mint end < accept begin <= accept end <= 23 (disjoint epoch-hour windows)", "window constants overlap or are out of range")
	hour := Bin(token.REM, Bin(token.QUO, Bin(token.SUB, Param("timestamp"), Path(Param("node"), "Epoch")), nil), ConstInt(24))
	if f := c.F("(*kernel.Node).checkConsensusAcceptHour"); f != nil {
		rets := allReturns(f)
		ok := len(rets) == 1
		if ok {
			ph, isPhi := retValue(rets[0], 0).(*ssa.Phi)
			ok = isPhi
			if ok {
				n := 0
				for i, ed := range ph.Edges {
					if ConstBool(false)(ed) {
						continue
					}
					n++
					if !(Bin(token.LEQ, hour, w.ConstNamed("config", "KernelNodeAcceptTimeEnd"))(ed) && dominatedByBranch(f, ph.Block().Preds[i], Bin(token.GEQ, hour, w.ConstNamed("config", "KernelNodeAcceptTimeBegin")), true)) {
						ok = false
					}
				}
				ok = ok && n == 1
			}
		}
		c.Require(ok, "shape", shortName(f)+"|inclusive window", "accept hour iff hour >= AcceptTimeBegin && hour <= AcceptTimeEnd with hour = (timestamp-Epoch)/Hour % 24", "window expression changed")
	}
	if f := c.F("(*kernel.Node).checkConsensusPledgeHour"); f != nil {
		// complement: truth table over 24 hours by evaluating the function's CFG
		leaves := []leaf{{hour, "h"},
			{w.ConstNamed("config", "KernelMintTimeBegin"), "mb"}, {w.ConstNamed("config", "KernelMintTimeEnd"), "me"},
			{w.ConstNamed("config", "KernelNodeAcceptTimeBegin"), "ab"}, {w.ConstNamed("config", "KernelNodeAcceptTimeEnd"), "ae"}}
		bad := ""
		for h := int64(0); h < 24 && bad == ""; h++ {
			env := map[string]int64{"h": h, "mb": vals["KernelMintTimeBegin"], "me": vals["KernelMintTimeEnd"], "ab": vals["KernelNodeAcceptTimeBegin"], "ae": vals["KernelNodeAcceptTimeEnd"]}
			got, err := evalBoolFunc(f, leaves, env)
			if err != nil {
				bad = err.Error()
				break
			}
			isMint := h >= env["mb"] && h <= env["me"]
			isAcc := h >= env["ab"] && h <= env["ae"]
			if got != (!isMint && !isAcc) {
				bad = "hour " + itoa(int(h))
			}
			c.Sites++
		}
		c.Require(bad == "", "finite-eval", shortName(f)+"|complement of both windows", "for every hour 0..23 the pledge window is exactly the complement of the mint and accept windows", "differs at "+bad)
	}
}

// stateSequencesRule: every entry of the time-indexed membership table is computed from the
// records alone: for each record i the stored list is nodeSequenceWithoutState(record.Timestamp+1,
// acceptedOnly) — never a list carried over from a neighbouring entry.
func stateSequencesRule(c *Check) {
	f := c.F("(*kernel.Node).buildNodeStateSequences")
	if f == nil {
		return
	}
	all := Param("allNodesSortedWithState")
	lp := c.RangeLoop(f, "records", all)
	seqCall := Call("(*kernel.Node).nodeSequenceWithoutState", Param("node"),
		Bin(token.ADD, Path(all, "[].Timestamp"), ConstInt(1)), Param("acceptedOnly"))
	c.LoopEffect(f, lp, func(ins ssa.Instruction) bool {
		st, ok := ins.(*ssa.Store)
		if !ok {
			return false
		}
		// nodeStateSequences[i] = <literal whose NodesWithoutState is the computed list>
		ia, ok := st.Addr.(*ssa.IndexAddr)
		if !ok {
			return false
		}
		if _, isMk := ia.X.(*ssa.MakeSlice); !isMk {
			return false
		}
		lit, ok := st.Val.(*ssa.Alloc)
		if !ok {
			return false
		}
		good := false
		for _, ref := range *lit.Referrers() {
			fa, ok := ref.(*ssa.FieldAddr)
			if !ok || fieldNameOf(fa.X.Type(), fa.Field) != "NodesWithoutState" {
				continue
			}
			for _, r2 := range *fa.Referrers() {
				if s2, ok := r2.(*ssa.Store); ok && s2.Addr == fa {
					good = seqCall(s2.Val)
				}
			}
		}
		return good
	}, "sequences[i] = {Timestamp, nodeSequenceWithoutState(Timestamp+1, acceptedOnly)}", "each table entry is recomputed from the records up to its own timestamp")
}
