package main

import (
	"go/token"
	"strings"

	"golang.org/x/tools/go/ssa"
)

func init() { register("C28", propC28) }

// switchClass returns the constants of the non-default clauses whose body kind is in
// keep, plus the default body kind, for the unique switch in fn with the given tag.
func switchClass(c *Check, pkg, recv, name string, tag func() interface{}, keep map[string]bool) ([]string, string, bool) {
	return nil, "", false
}

func propC28(c *Check) {
	c.Explain = "Decides the class tables and step guards that serialise consensus operations: (1) class tables read from switch statements (type-resolved): IsSnapshotBatchable accepts exactly {script, deposit, withdrawal submit, withdrawal claim}; the consensus class named by validateConsensusTransactionReferences, WriteConsensusSnapshotWithHack and reloadConsensusState (mint branch + switch) is the same set {mint, node pledge, node cancel, node accept, node remove, custodian update, custodian slash}; the two classes are disjoint and together with Unknown cover every TransactionType* constant; the operations elected by electSnapshotNode are a subset of the consensus class; (2) validateKernelSnapshot: with more than one transaction every found transaction passes IsSnapshotBatchable() (per-iteration gate) and this is the only accept of that branch; with one transaction every accept passes validateConsensusTransactionReferences == nil, except the recorded historical exemption (finalized && mainnet && timestamp < fork constant); (3) validateConsensusTransactionReferences accepts a consensus-class transaction only if it is the recorded last operation itself, or len(References) >= 1 && References[0] == last operation && s.Timestamp > last.Timestamp, and rejects a multi-transaction last snapshot; (4) validateSnapshotTransaction calls validateKernelSnapshot after every transaction it adds to the found set and honours its error; (5) storage writeConsensusSnapshot keeps the matching assertions (single transaction, identity, reference equality, strictly later timestamp) before its writes and is idempotent for the same operation."
	c.NotCov = "histories of consensus operations beyond the step guard; the pre-fork historical exemption is trusted as recorded."
	c.Floor(14)
	w := c.W
	batchable := []string{"TransactionTypeScript", "TransactionTypeDeposit", "TransactionTypeWithdrawalSubmit", "TransactionTypeWithdrawalClaim"}
	consensus := []string{"TransactionTypeMint", "TransactionTypeNodePledge", "TransactionTypeNodeCancel", "TransactionTypeNodeAccept", "TransactionTypeNodeRemove", "TransactionTypeCustodianUpdateNodes", "TransactionTypeCustodianSlashNodes"}

	readSwitch := func(pkg, recv, name string, nth int) (acceptC []string, def string, ok bool) {
		fd, p := w.FuncDecl(pkg, recv, name)
		if fd == nil {
			c.Undecided("anchor", pkg+"."+name, "function must exist", "not found")
			return nil, "", false
		}
		sws := SwitchOn(p, fd, TagCall("TransactionType"))
		if len(sws) <= nth {
			c.Undecided("anchor", pkg+"."+name+"|switch TransactionType()", "switch over the transaction type", "found "+itoa(len(sws)))
			return nil, "", false
		}
		for _, cl := range sws[nth] {
			c.Sites++
			if cl.Default {
				def = cl.Body
			} else {
				acceptC = append(acceptC, cl.Consts...)
			}
		}
		return acceptC, def, true
	}
	if got, def, ok := readSwitch("common", "SignedTransaction", "IsSnapshotBatchable", 0); ok {
		c.Funcs["(*common.SignedTransaction).IsSnapshotBatchable"] = true
		c.Require(sameSet(got, batchable) && def == "return", "classtable", "common.IsSnapshotBatchable", "batchable classes are exactly {script, deposit, withdrawal submit, withdrawal claim}; anything else returns false", "found "+strings.Join(got, ",")+" default="+def)
		if f := c.F("(*common.SignedTransaction).IsSnapshotBatchable"); f != nil {
			nTrue, nFalse := 0, 0
			for _, r := range allReturns(f) {
				if ConstBool(true)(retValue(r, 0)) {
					nTrue++
				} else if ConstBool(false)(retValue(r, 0)) {
					nFalse++
				}
			}
			c.Require(nTrue == 1 && nFalse == 1, "shape", shortName(f)+"|verdicts", "listed classes return true, the default returns false", "verdict shape changed")
		}
	}
	if got, def, ok := readSwitch("kernel", "Node", "validateConsensusTransactionReferences", 0); ok {
		c.Require(sameSet(got, consensus) && def == "return", "classtable", "kernel.validateConsensusTransactionReferences", "the reference rule applies to exactly the consensus class; other classes return nil", "found "+strings.Join(got, ",")+" default="+def)
	}
	if got, def, ok := readSwitch("kernel", "Node", "WriteConsensusSnapshotWithHack", 0); ok {
		c.Require(sameSet(got, consensus) && def == "panic", "classtable", "kernel.WriteConsensusSnapshotWithHack", "the consensus marker is written for exactly the consensus class; anything else panics", "found "+strings.Join(got, ",")+" default="+def)
	}
	if got, def, ok := readSwitch("kernel", "Node", "reloadConsensusState", 0); ok {
		withMint := append(append([]string{}, got...), "TransactionTypeMint")
		f := c.F("(*kernel.Node).reloadConsensusState")
		mintOK := false
		if f != nil {
			for _, ci := range findCalls(f, "(*kernel.Node).WriteConsensusSnapshotWithHack") {
				if dominatedByBranch(f, ci.Block(), BinEither(token.EQL, Call("(*common.SignedTransaction).TransactionType"), w.ConstNamed("common", "TransactionTypeMint")), true) {
					mintOK = true
				}
			}
		}
		c.Require(sameSet(withMint, consensus) && def == "return" && mintOK, "classtable", "kernel.reloadConsensusState", "the marker is refreshed for the mint branch plus exactly the other consensus classes; other classes return nil", "found "+strings.Join(got, ",")+" default="+def)
	}
	all := w.constsWithPrefix("common", "TransactionType")
	union := append(append([]string{"TransactionTypeUnknown"}, batchable...), consensus...)
	disjoint := true
	for _, b := range batchable {
		for _, k := range consensus {
			if b == k {
				disjoint = false
			}
		}
	}
	c.Require(disjoint && sameSet(union, all), "classtable", "common.TransactionType*|partition", "batchable, consensus and Unknown partition all TransactionType* constants", "constants: "+strings.Join(all, ","))
	// elected operations subset of consensus class
	if fd, p := w.FuncDecl("kernel", "Node", "electSnapshotNode"); fd != nil {
		sws := SwitchOn(p, fd, TagVar("operation"))
		sub := len(sws) == 1
		if sub {
			for _, cl := range sws[0] {
				for _, k := range cl.Consts {
					in := false
					for _, cc := range consensus {
						if cc == k {
							in = true
						}
					}
					if !in {
						sub = false
					}
				}
			}
		}
		c.Require(sub, "classtable", "kernel.electSnapshotNode|subset", "every elected operation belongs to the consensus class (no batchable transaction is redirected to an elected proposer)", "an elected operation is outside the consensus class")
	}

	if f := c.F("(*kernel.Node).validateKernelSnapshot"); f != nil {
		multi := Bin(token.GTR, Len(Path(Param("s"), "Transactions")), ConstInt(1))
		var multiRets, singleRets, exemptRets []ssa.Instruction
		fork := Bin(token.LSS, Path(Param("s"), "Timestamp"), w.ConstNamed("kernel", "mainnetConsensusReferenceForkAt"))
		for _, r := range acceptReturns(f) {
			switch {
			case dominatedByBranch(f, r.Block(), multi, true):
				multiRets = append(multiRets, r)
			case dominatedByBranch(f, r.Block(), fork, true):
				exemptRets = append(exemptRets, r)
			default:
				singleRets = append(singleRets, r)
			}
		}
		c.Require(len(multiRets) == 1 && len(exemptRets) == 1 && len(singleRets) >= 2, "shape", shortName(f)+"|accept forms", "one batch accept, one historical-exemption accept, and the single-transaction accepts", "found "+itoa(len(multiRets))+"/"+itoa(len(exemptRets))+"/"+itoa(len(singleRets)))
		lp := c.RangeLoop(f, "found", Param("found"))
		c.LoopGate(f, lp, Gate{Name: "tx.IsSnapshotBatchable() true", RejectOnTrue: false, Cond: Call("(*common.SignedTransaction).IsSnapshotBatchable")}, "every transaction of a multi-transaction snapshot is batchable")
		if lp != nil && len(multiRets) == 1 {
			c.Require(lp.Header.Dominates(multiRets[0].Block()), "order", shortName(f)+"|batch accept after scan", "the batch accept follows the scan over all found transactions", "accept no longer follows the scan")
		}
		ref := Call("(*kernel.Node).validateConsensusTransactionReferences", Param("node"), Param("s"))
		c.MustPass(f, Gate{Name: "validateConsensusTransactionReferences(s, tx) != nil => reject", RejectOnTrue: true, Cond: BinEither(token.NEQ, ref, ConstNil)}, singleRets, "every single-transaction accept")
		c.MustPass(f, Gate{Name: "finalized", RejectOnTrue: false, Cond: Param("finalized")}, exemptRets, "the historical exemption")
		c.MustPass(f, Gate{Name: "networkId == mainnet", RejectOnTrue: false, Cond: Bin(token.EQL, Call("(crypto.Hash).String", Path(Param("node"), "networkId")), w.ConstNamed("config", "KernelNetworkId"))}, exemptRets, "the historical exemption")
		// the transaction checked is found[s.Transactions[0]]
		okt := false
		for _, v := range findValues(f, ref) {
			a := v.(*ssa.Call).Call.Args[2]
			l, isL := a.(*ssa.Lookup)
			okt = isL && Param("found")(l.X) && Path(Param("s"), "Transactions.[]")(l.Index) && hasIndex(l.Index, ConstInt(0))
		}
		c.Require(okt, "provenance", shortName(f)+"|sole transaction", "the reference rule is applied to found[s.Transactions[0]]", "operand changed")
	}
	if f := c.F("(*kernel.Node).validateConsensusTransactionReferences"); f != nil {
		last := Extract(0, Call("(*kernel.Node).ReadLastConsensusSnapshotWithHack", Param("node")))
		ltx := PathFrom(last, "Transactions.[]")
		txh := Call("(*common.VersionedTransaction).PayloadHash", Param("tx"))
		typ := Call("(*common.SignedTransaction).TransactionType")
		var classRets, sameRets, finalRets []ssa.Instruction
		for _, r := range acceptReturns(f) {
			switch {
			case dominatedByBranch(f, r.Block(), BinEither(token.EQL, ltx, txh), true):
				sameRets = append(sameRets, r)
			case len(findCalls(f, "(*kernel.Node).ReadLastConsensusSnapshotWithHack")) == 1 && findCalls(f, "(*kernel.Node).ReadLastConsensusSnapshotWithHack")[0].Block().Dominates(r.Block()):
				finalRets = append(finalRets, r)
			default:
				classRets = append(classRets, r)
			}
		}
		_ = typ
		c.Require(len(classRets) == 1 && len(sameRets) == 1 && len(finalRets) == 1, "shape", shortName(f)+"|accept forms", "three accepts: other class, identical operation, chained operation", "found "+itoa(len(classRets))+"/"+itoa(len(sameRets))+"/"+itoa(len(finalRets)))
		chain := append(append([]ssa.Instruction{}, sameRets...), finalRets...)
		c.MustPass(f, Gate{Name: "len(tx.References) < 1 => reject", RejectOnTrue: true, Cond: Bin(token.LSS, Len(Path(Param("tx"), "References")), ConstInt(1))}, chain, "accepting a consensus-class transaction")
		c.MustPass(f, Gate{Name: "len(last.Transactions) > 1 => reject", RejectOnTrue: true, Cond: Bin(token.GTR, Len(PathFrom(last, "Transactions")), ConstInt(1))}, chain, "accepting a consensus-class transaction")
		c.MustPass(f, Gate{Name: "tx.References[0] != last operation => reject", RejectOnTrue: true, Cond: BinEither(token.NEQ, Path(Param("tx"), "References.[]"), ltx)}, finalRets, "accepting a new consensus operation")
		c.MustPass(f, Gate{Name: "s.Timestamp <= last.Timestamp => reject", RejectOnTrue: true, Cond: Bin(token.LEQ, Path(Param("s"), "Timestamp"), PathFrom(last, "Timestamp"))}, finalRets, "accepting a new consensus operation")
		// indexes 0
		ok0 := true
		for _, i := range findIfs(f, BinEither(token.NEQ, Path(Param("tx"), "References.[]"), ltx)) {
			bo := i.Cond.(*ssa.BinOp)
			if !(hasIndex(bo.X, ConstInt(0)) && hasIndex(bo.Y, ConstInt(0))) {
				ok0 = false
			}
		}
		c.Require(ok0, "provenance", shortName(f)+"|first reference", "the comparison is References[0] against last.Transactions[0]", "indexes changed")
	}
	if f := c.F("(*kernel.Node).validateSnapshotTransaction"); f != nil {
		lp := c.RangeLoop(f, "s.Transactions", Path(Param("s"), "Transactions"))
		found := func(v ssa.Value) bool { _, ok := v.(*ssa.MakeMap); return ok }
		vk := Call("(*kernel.Node).validateKernelSnapshot", Param("node"), Param("s"), found, Param("finalized"))
		n := 0
		if lp != nil {
			for bi := range lp.Blocks {
				for _, ins := range f.Blocks[bi].Instrs {
					mu, ok := ins.(*ssa.MapUpdate)
					if !ok || !found(mu.Map) {
						continue
					}
					n++
					sub := &Loop{Name: "after found[txh]=tx #" + itoa(n), Header: lp.Header, Body: mu.Block(), Blocks: lp.Blocks}
					c.LoopGate(f, sub, Gate{Name: "validateKernelSnapshot(s, found, finalized) != nil => reject", RejectOnTrue: true, Cond: BinEither(token.NEQ, vk, ConstNil)}, "the batch rule is re-checked after every transaction added to the found set")
				}
			}
		}
		c.Require(n == 2, "shape", shortName(f)+"|found insertions", "two insertion points (already stored, freshly validated)", "found "+itoa(n))
		// the freshly validated path validates the transaction itself first
		c.LoopGateForMapUpdateN(f, lp, Gate{Name: "tx.Validate(store, s.Timestamp, finalized) != nil => reject", RejectOnTrue: true, Cond: BinEither(token.NEQ, Call("(*common.VersionedTransaction).Validate", Extract(0, Call("iface:storage.Store.CacheGetTransaction"))), ConstNil)}, 1, "a cached transaction enters the found set only after Validate")
	}
	if f := c.F("storage.writeConsensusSnapshot"); f != nil {
		sets := callInstrs(findCalls(f, txnSet))
		snap, tx := Param("snap"), Param("tx")
		last := PhiNamed("last")
		c.MustPass(f, Gate{Name: "len(snap.Transactions) != 1 => panic", RejectOnTrue: true, Cond: Bin(token.NEQ, Len(Path(snap, "Transactions")), ConstInt(1))}, sets, "recording a consensus operation")
		c.MustPass(f, Gate{Name: "snap.Transactions[0] != tx.PayloadHash() => panic", RejectOnTrue: true, Cond: BinEither(token.NEQ, Path(snap, "Transactions.[]"), Call("(*common.VersionedTransaction).PayloadHash", tx))}, sets, "recording a consensus operation")
		isGen := findIfs(f, func(v ssa.Value) bool { p, ok := v.(*ssa.Phi); return ok && strings.Contains(p.Comment, "&&") })
		_ = isGen
		// non-genesis writes pass the chain assertions
		var chainSets []ssa.Instruction
		for _, s := range sets {
			a := s.(ssa.CallInstruction).Common().Args
			if Call("storage.graphConsensusSnapshotKey", PathFrom(last, "Timestamp"))(a[1]) {
				chainSets = append(chainSets, s)
			}
		}
		c.Require(len(chainSets) == 1 && len(sets) == 2, "shape", shortName(f)+"|two writes", "the previous marker is linked to the new operation and the new marker is written", "found "+itoa(len(chainSets))+"/"+itoa(len(sets)))
		c.MustPass(f, Gate{Name: "len(last.Transactions) != 1 => panic", RejectOnTrue: true, Cond: Bin(token.NEQ, Len(PathFrom(last, "Transactions")), ConstInt(1))}, chainSets, "linking to the previous operation (the recorded predecessor is itself a single-transaction snapshot)")
		c.MustPass(f, Gate{Name: "last operation != tx.References[0] => panic", RejectOnTrue: true, Cond: BinEither(token.NEQ, PathFrom(last, "Transactions.[]"), Path(tx, "References.[]"))}, chainSets, "linking to the previous operation")
		c.MustPass(f, Gate{Name: "last.Timestamp >= snap.Timestamp => panic", RejectOnTrue: true, Cond: Bin(token.GEQ, PathFrom(last, "Timestamp"), Path(snap, "Timestamp"))}, chainSets, "linking to the previous operation")
		c.MustPass(f, Gate{Name: "last operation == tx => return nil (idempotent)", RejectOnTrue: true, Cond: BinEither(token.EQL, PathFrom(last, "Transactions.[]"), Call("(*common.VersionedTransaction).PayloadHash", tx))}, chainSets, "linking to the previous operation")
	}
}
