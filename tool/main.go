// mixvet: repository-specific static checker for MixinNetwork/mixin.
// It decides structural clauses of the properties in /verif/properties.jsonl from the
// type-checked SSA form of /repo's current working tree. It never runs repository code.
package main

import (
	"golang.org/x/tools/go/ssa"
	"path/filepath"
	"go/types"
	"fmt"
	"os"
	"runtime/debug"
	"sort"
	"strings"
	"time"
)

type propFn func(c *Check)

var registry = map[string]propFn{}

func register(id string, f propFn) { registry[id] = f }

func usage() {
	fmt.Fprintln(os.Stderr, "usage: mixvet check <ID>[,<ID>...] [--tier quick|thorough] | list | dump <func> | funcs <substr>")
	os.Exit(2)
}

func main() {
	if len(os.Args) < 2 {
		usage()
	}
	switch os.Args[1] {
	case "list":
		ids := make([]string, 0, len(registry))
		for id := range registry {
			ids = append(ids, id)
		}
		sort.Strings(ids)
		fmt.Println(strings.Join(ids, " "))
	case "dump":
		w, err := Load(repoDir(), "")
		if err != nil {
			fmt.Fprintln(os.Stderr, err)
			os.Exit(2)
		}
		for _, n := range os.Args[2:] {
			fn := w.Fn(n)
			if fn == nil {
				fmt.Println("not found:", n)
				continue
			}
			fn.WriteTo(os.Stdout)
		}
	case "funcs":
		w, err := Load(repoDir(), "")
		if err != nil {
			fmt.Fprintln(os.Stderr, err)
			os.Exit(2)
		}
		for _, fn := range w.ModuleFuncs() {
			if len(os.Args) < 3 || strings.Contains(shortName(fn), os.Args[2]) {
				fmt.Println(shortName(fn))
			}
		}
	case "effects":
		w, err := Load(repoDir(), "")
		if err != nil {
			fmt.Fprintln(os.Stderr, err)
			os.Exit(2)
		}
		e := w.Effects()
		for _, fn := range w.ModuleFuncs() {
			for _, x := range e.Direct(fn) {
				if x.Op == "get" {
					continue
				}
				fmt.Printf("%-8s %-28s %-10s %s  %s\n", x.Op, x.Family, x.DB, shortName(fn), instrPos(w, x.Ins))
			}
		}
	case "variants":
		// mixvet variants <ID> [substr]: run the self-test corpus only
		only := ""
		if len(os.Args) > 3 {
			only = os.Args[3]
		}
		rs, err := runVariants(os.Args[2], only)
		if err != nil {
			fmt.Fprintln(os.Stderr, err)
			os.Exit(2)
		}
		bad := 0
		for _, r := range rs {
			st := "FIRED "
			if !r.Fired {
				st = "MISSED"
				bad++
			}
			fmt.Printf("%s %s %s\n", st, r.Name, r.Detail)
		}
		if bad > 0 {
			os.Exit(1)
		}
	case "paramtable":
		// regenerate /verif/tables/params.tsv (parameter positions of every module function)
		w, err := Load(repoDir(), "")
		if err != nil {
			fmt.Fprintln(os.Stderr, err)
			os.Exit(2)
		}
		var b strings.Builder
		b.WriteString("# function<TAB>index<TAB>parameter name<TAB>type : lets a renamed parameter be recognised by position (see ssalib.go paramIs)\n")
		for _, fn := range w.ModuleFuncs() {
			for i, p := range fn.Params {
				if p.Name() == "" || p.Name() == "_" {
					continue
				}
				fmt.Fprintf(&b, "%s\t%d\t%s\t%s\n", shortName(fn), i, p.Name(), types.TypeString(p.Type(), nil))
			}
		}
		if err := os.WriteFile(filepath.Join(verifDir(), "tables", "params.tsv"), []byte(b.String()), 0o644); err != nil {
			fmt.Fprintln(os.Stderr, err)
			os.Exit(2)
		}
		var lb strings.Builder
		lb.WriteString("# function<TAB>phi|alloc<TAB>local name<TAB>ordinal among the function's named locals of that kind and type<TAB>type : lets a renamed local be recognised (ssalib.go phiIs / allocIs)\n")
		for _, fn := range w.ModuleFuncs() {
			pc, ac := map[string]int{}, map[string]int{}
			seenP, seenA := map[string]bool{}, map[string]bool{}
			for _, bb := range fn.Blocks {
				for _, ins := range bb.Instrs {
					switch q := ins.(type) {
					case *ssa.Phi:
						if q.Comment == "" || strings.HasPrefix(q.Comment, "range") || q.Comment == "&&" || q.Comment == "||" {
							continue
						}
						t := types.TypeString(q.Type(), nil)
						if !seenP[q.Comment] {
							fmt.Fprintf(&lb, "%s\tphi\t%s\t%d\t%s\n", shortName(fn), q.Comment, pc[t], t)
							seenP[q.Comment] = true
						}
						pc[t]++
					case *ssa.Alloc:
						if q.Comment == "" || q.Comment == "complit" || q.Comment == "varargs" {
							continue
						}
						t := types.TypeString(q.Type(), nil)
						if !seenA[q.Comment] {
							fmt.Fprintf(&lb, "%s\talloc\t%s\t%d\t%s\n", shortName(fn), q.Comment, ac[t], t)
							seenA[q.Comment] = true
						}
						ac[t]++
					}
				}
			}
		}
		if err := os.WriteFile(filepath.Join(verifDir(), "tables", "locals.tsv"), []byte(lb.String()), 0o644); err != nil {
			fmt.Fprintln(os.Stderr, err)
			os.Exit(2)
		}
	case "mutate":
		// mixvet mutate <ID> [jobs] [func-substr]: mutation sweep of the checker (development aid)
		jobs := 6
		if len(os.Args) > 3 {
			fmt.Sscan(os.Args[3], &jobs)
		}
		only := ""
		if len(os.Args) > 4 {
			only = os.Args[4]
		}
		if err := mutateSweep(os.Args[2], jobs, only); err != nil {
			fmt.Fprintln(os.Stderr, err)
			os.Exit(2)
		}
	case "check":
		if len(os.Args) < 3 {
			usage()
		}
		tier := os.Getenv("VERIF_TIER")
		for i, a := range os.Args {
			if a == "--tier" && i+1 < len(os.Args) {
				tier = os.Args[i+1]
			}
		}
		if tier != "thorough" {
			tier = "quick"
		}
		ids := strings.Split(os.Args[2], ",")
		if os.Args[2] == "all" {
			ids = ids[:0]
			for id := range registry {
				ids = append(ids, id)
			}
			sort.Strings(ids)
		}
		start := time.Now()
		w, lerr := Load(repoDir(), os.Getenv("MIXVET_GOARCH"))
		rc := 0
		for _, id := range ids {
			f := registry[id]
			if f == nil {
				fmt.Fprintf(os.Stderr, "no check registered for %s\n", id)
				os.Exit(2)
			}
			c := &Check{ID: id, Tier: tier, W: w, Funcs: map[string]bool{}}
			if lerr == nil {
				runProp(c, f)
				if tier == "thorough" && os.Getenv("MIXVET_REPO") == "" && os.Getenv("MIXVET_GOARCH") == "" {
					c.variantsObligations()
					c.archObligation()
				}
			}
			if r := c.Finish(start, lerr); r > rc {
				rc = r
			}
		}
		os.Exit(rc)
	default:
		usage()
	}
}

// runProp runs one property's rules; a panic in the analyser is an undecided obligation
// (fails the check), never a silent pass.
func runProp(c *Check, f propFn) {
	defer func() {
		if r := recover(); r != nil {
			c.Undecided("analyser", "panic", "the analyser must complete", fmt.Sprintf("%v\n%s", r, debug.Stack()))
		}
	}()
	f(c)
}
