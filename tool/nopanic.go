package main

import (
	"fmt"
	"go/constant"
	"go/token"
	"go/types"
	"math"
	"os"
	"path/filepath"
	"sort"
	"strings"

	"golang.org/x/tools/go/ssa"
)

// E4 nopanic: panic-site inventory with guard discharge.
//
// From an entry function, over the module functions reachable through static calls,
// closures and (non-boundary) interface invokes, every instruction that can panic is
// enumerated. Each site must be discharged by a structural argument (constant index
// into a fixed array, range index over the same slice, interval facts on len(path) /
// integer fields established by dominating branch edges in the function or at every
// call site on the way from the entry, a dominating nil test, an explicit panic whose
// guard is refuted by those facts) or be listed in the reviewed invariant table
// /verif/tables/nopanic_<ID>.tsv (function, kind, construct, count, reason). A site that
// is neither discharged nor tabled is a violation naming the site and the call chain.

type panicSite struct {
	Fn     *ssa.Function
	Ins    ssa.Instruction
	Kind   string // panic | index | slice | div | assert | nilderef | stdcall | makeslice | mapnil
	Detail string // construct: access path / callee / guard text (no line numbers)
	Why    string // discharge reason ("" = undischarged)
}

type ival struct{ lo, hi int64 }

var ivalTop = ival{math.MinInt64, math.MaxInt64}

func (a ival) meet(b ival) ival {
	if b.lo > a.lo {
		a.lo = b.lo
	}
	if b.hi < a.hi {
		a.hi = b.hi
	}
	return a
}
func (a ival) join(b ival) ival {
	if b.lo < a.lo {
		a.lo = b.lo
	}
	if b.hi > a.hi {
		a.hi = b.hi
	}
	return a
}

type facts map[string]ival

func (f facts) clone() facts {
	g := facts{}
	for k, v := range f {
		g[k] = v
	}
	return g
}
func (f facts) get(k string) ival {
	if v, ok := f[k]; ok {
		return v
	}
	return ivalTop
}

type nopanic struct {
	c        *Check
	entry    *ssa.Function
	boundary func(cc *ssa.CallCommon) bool
	reach    []*ssa.Function
	parent   map[*ssa.Function]*ssa.Function // BFS tree for call chains
	callers  map[*ssa.Function][]ssa.CallInstruction
	entryF   map[*ssa.Function]facts
	stored   map[string]bool // field names stored to (outside fresh literals) in reachable code
	sites    []*panicSite
	noWrap   map[*ssa.BinOp]bool // narrow additions proved not to wrap by a dominating relational guard
	skipPanicsIn func(fn *ssa.Function) bool
	preCall  func(np *nopanic, fn *ssa.Function, b *ssa.BasicBlock, cl *ssa.Call, add func(ssa.Instruction, string, string, string)) bool
}

func paramIndex(fn *ssa.Function, v ssa.Value) int {
	for i, p := range fn.Params {
		if ssa.Value(p) == v {
			return i
		}
	}
	return -1
}

// rootKey names the root of an access path: "p<i>" for parameter i (also when spilled),
// "f:<name>" for a captured variable, "v:<name>" for a local SSA value.
func rootKey(fn *ssa.Function, r ssa.Value) string {
	if i := paramIndex(fn, r); i >= 0 {
		return fmt.Sprintf("p%d", i)
	}
	if a, ok := r.(*ssa.Alloc); ok {
		st := storesTo(a)
		if len(st) == 1 {
			if i := paramIndex(fn, st[0]); i >= 0 {
				return fmt.Sprintf("p%d", i)
			}
		}
	}
	if fv, ok := r.(*ssa.FreeVar); ok {
		return "f:" + fv.Name()
	}
	if r == nil {
		return "?"
	}
	return "v:" + localDesc(r, 0)
}

// localDesc names a local root by its defining construct (stable under renumbering of
// SSA temporaries): result of a call, a made slice, a named local...
func localDesc(r ssa.Value, depth int) string {
	if depth > 2 {
		return "…"
	}
	switch x := r.(type) {
	case *ssa.Extract:
		if cl, ok := x.Tuple.(*ssa.Call); ok {
			return fmt.Sprintf("%s#%d", calleeName(&cl.Call), x.Index)
		}
	case *ssa.Call:
		return calleeName(&x.Call) + "()"
	case *ssa.MakeSlice:
		return "make"
	case *ssa.MakeMap:
		return "makemap"
	case *ssa.Alloc:
		if x.Comment != "" {
			return "local " + x.Comment
		}
		return "local"
	case *ssa.Phi:
		return "φ" + x.Comment
	case *ssa.Slice:
		rr, p := accessPath(x.X)
		bt := func(v ssa.Value) string {
			if v == nil {
				return ""
			}
			if c, ok := constIntOf(stripConvNP(v)); ok {
				return fmt.Sprint(c)
			}
			return "_"
		}
		return "slice(" + localDesc(rr, depth+1) + "." + strings.Join(p, ".") + "[" + bt(x.Low) + ":" + bt(x.High) + "])"
	case *ssa.Const:
		return "const"
	case *ssa.Lookup:
		return "lookup"
	case *ssa.Parameter:
		return x.Name()
	case *ssa.FreeVar:
		return x.Name()
	case *ssa.Global:
		return "global " + x.Name()
	case *ssa.Next:
		return "range"
	case *ssa.TypeAssert:
		return "assert"
	}
	return r.Type().String()
}

// termOf maps an SSA value to an interval term key, or "".
func termOf(fn *ssa.Function, v ssa.Value) string {
	v = stripConvNP(v)
	switch x := v.(type) {
	case *ssa.Call:
		if calleeName(&x.Call) == "builtin:len" {
			r, p := accessPath(stripConvNP(x.Call.Args[0]))
			return "len:" + rootKey(fn, r) + "." + strings.Join(p, ".")
		}
		if calleeName(&x.Call) == "(common.Integer).Sign" {
			r, p := accessPath(stripConvNP(x.Call.Args[0]))
			if len(p) > 0 || paramIndex(fn, r) >= 0 {
				return "sign:" + rootKey(fn, r) + "." + strings.Join(p, ".")
			}
		}
		return ""
	case *ssa.UnOp:
		if x.Op == token.MUL {
			if b, ok := x.Type().Underlying().(*types.Basic); ok && b.Info()&types.IsInteger != 0 {
				r, p := accessPath(x)
				if len(p) > 0 {
					return "val:" + rootKey(fn, r) + "." + strings.Join(p, ".")
				}
			}
		}
	case *ssa.Parameter:
		if b, ok := x.Type().Underlying().(*types.Basic); ok && b.Info()&types.IsInteger != 0 {
			return "val:" + rootKey(fn, x) + "."
		}
	case *ssa.Field:
		if b, ok := x.Type().Underlying().(*types.Basic); ok && b.Info()&types.IsInteger != 0 {
			r, p := accessPath(x)
			return "val:" + rootKey(fn, r) + "." + strings.Join(p, ".")
		}
	}
	return ""
}

// termOff maps v to (term, off) with value(v) = value(term) + off: sees through
// len(x[k:]) = len(x)-k and +/- constants.
func termOff(fn *ssa.Function, v ssa.Value) (string, int64) {
	v = stripConvNP(v)
	if cl, ok := v.(*ssa.Call); ok && calleeName(&cl.Call) == "builtin:len" {
		if sl, ok := stripConvNP(cl.Call.Args[0]).(*ssa.Slice); ok && sl.High == nil && sl.Max == nil && sl.Low != nil {
			if k, isC := constIntOf(stripConvNP(sl.Low)); isC && arrayLenOfPtr(sl.X.Type()) < 0 {
				r, p := accessPath(stripConvNP(sl.X))
				return "len:" + rootKey(fn, r) + "." + strings.Join(p, "."), -k
			}
		}
	}
	if bo, ok := v.(*ssa.BinOp); ok && (bo.Op == token.ADD || bo.Op == token.SUB) && !(bo.Op == token.ADD && narrowAddMayWrap(bo)) {
		if c, isC := constIntOf(stripConvNP(bo.Y)); isC {
			if t, off := termOff(fn, bo.X); t != "" {
				if bo.Op == token.ADD {
					return t, off + c
				}
				return t, off - c
			}
		}
	}
	return termOf(fn, v), 0
}

// refine applies the fact `cond == outcome` to f.
func refineFacts(fn *ssa.Function, f facts, cond ssa.Value, outcome bool) {
	bo, ok := cond.(*ssa.BinOp)
	if !ok {
		if u, ok := cond.(*ssa.UnOp); ok && u.Op == token.NOT {
			refineFacts(fn, f, u.X, !outcome)
		}
		return
	}
	op := bo.Op
	lt, loff := termOff(fn, bo.X)
	rt, roff := termOff(fn, bo.Y)
	lc, lok := constIntOf(stripConvNP(bo.X))
	rc, rok := constIntOf(stripConvNP(bo.Y))
	rc, lc = rc-loff, lc-roff
	apply := func(term string, op token.Token, c int64) {
		iv := f.get(term)
		if strings.HasPrefix(term, "len:") && iv.lo < 0 {
			iv.lo = 0
		}
		switch op {
		case token.LSS:
			iv = iv.meet(ival{math.MinInt64, c - 1})
		case token.LEQ:
			iv = iv.meet(ival{math.MinInt64, c})
		case token.GTR:
			iv = iv.meet(ival{c + 1, math.MaxInt64})
		case token.GEQ:
			iv = iv.meet(ival{c, math.MaxInt64})
		case token.EQL:
			iv = iv.meet(ival{c, c})
		case token.NEQ:
			if iv.lo == c {
				iv.lo = c + 1
			}
			if iv.hi == c {
				iv.hi = c - 1
			}
		}
		if strings.HasPrefix(term, "len:") && iv.lo < 0 {
			iv.lo = 0
		}
		f[term] = iv
	}
	neg := map[token.Token]token.Token{token.LSS: token.GEQ, token.LEQ: token.GTR, token.GTR: token.LEQ, token.GEQ: token.LSS, token.EQL: token.NEQ, token.NEQ: token.EQL}
	flip := map[token.Token]token.Token{token.LSS: token.GTR, token.LEQ: token.GEQ, token.GTR: token.LSS, token.GEQ: token.LEQ, token.EQL: token.EQL, token.NEQ: token.NEQ}
	if _, known := neg[op]; !known {
		return
	}
	if !outcome {
		op = neg[op]
	}
	if lt != "" && rok {
		apply(lt, op, rc)
	} else if rt != "" && lok {
		apply(rt, flip[op], lc)
	}
}

// domEdges returns the (If, outcome) pairs whose outcome edge dominates block b.
func domEdges(b *ssa.BasicBlock) [](struct {
	If      *ssa.If
	Outcome bool
}) {
	var out [](struct {
		If      *ssa.If
		Outcome bool
	})
	for d := b; d != nil; d = d.Idom() {
		if len(d.Preds) != 1 {
			continue
		}
		p := d.Preds[0]
		iff, ok := p.Instrs[len(p.Instrs)-1].(*ssa.If)
		if !ok {
			continue
		}
		if p.Succs[0] == d && p.Succs[1] != d {
			out = append(out, struct {
				If      *ssa.If
				Outcome bool
			}{iff, true})
		} else if p.Succs[1] == d && p.Succs[0] != d {
			out = append(out, struct {
				If      *ssa.If
				Outcome bool
			}{iff, false})
		}
	}
	return out
}

func (np *nopanic) factsAt(fn *ssa.Function, b *ssa.BasicBlock) facts {
	f := np.entryF[fn].clone()
	if f == nil {
		f = facts{}
	}
	es := domEdges(b)
	for i := len(es) - 1; i >= 0; i-- {
		refineFacts(fn, f, es[i].If.Cond, es[i].Outcome)
	}
	return f
}

// relLess: on every path to b, value v < len(term) (or v < const bound) holds because of
// a dominating comparison of v itself.
func (np *nopanic) indexBoundedBy(fn *ssa.Function, b *ssa.BasicBlock, idx ssa.Value, lenTerm string, arrLen int64) bool {
	idx0 := stripConvNP(idx)
	for _, e := range domEdges(b) {
		bo, ok := e.If.Cond.(*ssa.BinOp)
		if !ok {
			continue
		}
		x, y := stripConvNP(bo.X), stripConvNP(bo.Y)
		op := bo.Op
		if !e.Outcome {
			op = map[token.Token]token.Token{token.LSS: token.GEQ, token.LEQ: token.GTR, token.GTR: token.LEQ, token.GEQ: token.LSS}[op]
		}
		// idx < len(P)  |  len(P) > idx
		if x == idx0 && op == token.LSS && termOf(fn, y) == lenTerm && lenTerm != "" {
			return true
		}
		if y == idx0 && op == token.GTR && termOf(fn, x) == lenTerm && lenTerm != "" {
			return true
		}
		if arrLen > 0 {
			if c, ok := constIntOf(y); ok && x == idx0 && (op == token.LSS && c <= arrLen || op == token.LEQ && c < arrLen) {
				return true
			}
		}
	}
	return false
}

func (np *nopanic) walk() {
	seen := map[*ssa.Function]bool{}
	np.parent = map[*ssa.Function]*ssa.Function{}
	np.callers = map[*ssa.Function][]ssa.CallInstruction{}
	cha := np.c.W.CHA()
	q := []*ssa.Function{np.entry}
	seen[np.entry] = true
	for len(q) > 0 {
		f := q[0]
		q = q[1:]
		np.reach = append(np.reach, f)
		add := func(g *ssa.Function, ci ssa.CallInstruction) {
			if g == nil || !inModule(g) || len(g.Blocks) == 0 {
				return
			}
			if ci != nil {
				np.callers[g] = append(np.callers[g], ci)
			}
			if !seen[g] {
				seen[g] = true
				np.parent[g] = f
				q = append(q, g)
			}
		}
		eachInstr(f, func(b *ssa.BasicBlock, ins ssa.Instruction) {
			if mc, ok := ins.(*ssa.MakeClosure); ok {
				add(mc.Fn.(*ssa.Function), nil)
			}
			ci, ok := ins.(ssa.CallInstruction)
			if !ok {
				return
			}
			cc := ci.Common()
			if np.boundary != nil && np.boundary(cc) {
				return
			}
			if g := cc.StaticCallee(); g != nil {
				add(g, ci)
				return
			}
			if cc.IsInvoke() {
				if n := cha.Nodes[f]; n != nil {
					for _, e := range n.Out {
						if e.Site == ci {
							add(e.Callee.Func, ci)
						}
					}
				}
			}
		})
	}
	sort.Slice(np.reach, func(i, j int) bool { return shortName(np.reach[i]) < shortName(np.reach[j]) })
}

func (np *nopanic) chain(fn *ssa.Function) string {
	var parts []string
	for f := fn; f != nil; f = np.parent[f] {
		parts = append([]string{shortName(f)}, parts...)
		if len(parts) > 12 {
			break
		}
	}
	return strings.Join(parts, " -> ")
}

// computeEntryFacts: fixpoint of "facts holding at every call site, translated to the
// callee's parameters". The entry function starts with no facts.
func (np *nopanic) computeEntryFacts() {
	np.entryF = map[*ssa.Function]facts{np.entry: {}}
	for iter := 0; iter < 6; iter++ {
		changed := false
		for _, g := range np.reach {
			if g == np.entry {
				continue
			}
			var acc facts
			ok := true
			for _, ci := range np.callers[g] {
				caller := ci.Parent()
				cf, known := np.entryF[caller]
				if !known {
					continue // caller not yet processed: optimistic for this round
				}
				_ = cf
				here := np.factsAt(caller, ci.Block())
				tr := facts{}
				args := callArgs(ci.Common())
				if ci.Common().IsInvoke() {
					args = ci.Common().Args // receiver is the interface value: params of the concrete method start after it
					args = append([]ssa.Value{ci.Common().Value}, args...)
				}
				for pi := range g.Params {
					if pi >= len(args) {
						break
					}
					r, p := accessPath(stripConvNP(args[pi]))
					rk := rootKey(caller, r)
					prefix := rk + "." + strings.Join(p, ".")
					for k, v := range here {
						// k = kind:root.path
						i := strings.Index(k, ":")
						kind, rest := k[:i], k[i+1:]
						if rest == prefix || strings.HasPrefix(rest, strings.TrimSuffix(prefix, ".")+".") && len(p) > 0 || (len(p) == 0 && strings.HasPrefix(rest, rk+".")) {
							suffix := strings.TrimPrefix(rest, strings.TrimSuffix(prefix, "."))
							suffix = strings.TrimPrefix(suffix, ".")
							tr[fmt.Sprintf("%s:p%d.%s", kind, pi, suffix)] = v
						}
					}
					// constant / non-negative integer arguments
					if c, isC := constIntOf(stripConvNP(args[pi])); isC {
						tr[fmt.Sprintf("val:p%d.", pi)] = ival{c, c}
					} else if isIntegerType(args[pi].Type()) && nonNegative(args[pi]) {
						tr[fmt.Sprintf("val:p%d.", pi)] = ival{0, math.MaxInt64}
					}
				}
				if acc == nil {
					acc = tr
				} else {
					for k, v := range acc {
						if w, has := tr[k]; has {
							acc[k] = v.join(w)
						} else {
							delete(acc, k)
						}
					}
				}
			}
			if !ok || acc == nil {
				acc = facts{}
			}
			old := np.entryF[g]
			if fmt.Sprint(old) != fmt.Sprint(acc) {
				np.entryF[g] = acc
				changed = true
			}
		}
		if !changed {
			break
		}
	}
}

func (np *nopanic) collectStored() {
	np.stored = map[string]bool{}
	for _, f := range np.reach {
		eachInstr(f, func(b *ssa.BasicBlock, ins ssa.Instruction) {
			st, ok := ins.(*ssa.Store)
			if !ok {
				return
			}
			fa, ok := st.Addr.(*ssa.FieldAddr)
			if !ok {
				return
			}
			r, _ := accessPath(fa)
			if _, fresh := r.(*ssa.Alloc); fresh {
				return // building a fresh value
			}
			np.stored[fieldNameOf2(fa.X.Type(), fa.Field)] = true
		})
	}
}

func pathMutable(np *nopanic, term string) bool {
	i := strings.Index(term, ".")
	if i < 0 {
		return false
	}
	for _, seg := range strings.Split(term[i+1:], ".") {
		if seg != "" && seg != "[]" && np.stored[seg] {
			return true
		}
	}
	return false
}

func arrayLenOfPtr(t types.Type) int64 {
	if p, ok := t.Underlying().(*types.Pointer); ok {
		if a, ok := p.Elem().Underlying().(*types.Array); ok {
			return a.Len()
		}
	}
	if a, ok := t.Underlying().(*types.Array); ok {
		return a.Len()
	}
	return -1
}

// isRangeIndexOf: idx is the induction value of a `for i := range X` loop whose bound is len(x) for this very x.
func isRangeIndexOf(idx, x ssa.Value) bool {
	bo, ok := stripConvNP(idx).(*ssa.BinOp)
	if !ok || bo.Op != token.ADD || !ConstInt(1)(bo.Y) {
		return false
	}
	ph, ok := bo.X.(*ssa.Phi)
	if !ok || ph.Comment != "rangeindex" {
		return false
	}
	// header: if idx < len(x)
	hb := ph.Block()
	iff, ok := hb.Instrs[len(hb.Instrs)-1].(*ssa.If)
	if !ok {
		return false
	}
	cmp, ok := iff.Cond.(*ssa.BinOp)
	if !ok || cmp.Op != token.LSS || cmp.X != ssa.Value(bo) {
		return false
	}
	ln, ok := cmp.Y.(*ssa.Call)
	if !ok || calleeName(&ln.Call) != "builtin:len" {
		if c, isC := constIntOf(cmp.Y); isC { // ranging over an array: bound is the constant length
			return arrayLenOfPtr(x.Type()) == c
		}
		return false
	}
	return ln.Call.Args[0] == x
}

func describeAccess(fn *ssa.Function, x ssa.Value) string {
	r, p := accessPath(x)
	return rootKey(fn, r) + "." + strings.Join(p, ".")
}

func nonNegative(v ssa.Value) bool {
	if cv, ok := v.(*ssa.Convert); ok {
		if b, ok := cv.X.Type().Underlying().(*types.Basic); ok && b.Info()&types.IsUnsigned != 0 {
			if tb, ok := cv.Type().Underlying().(*types.Basic); ok && (tb.Kind() == types.Int || tb.Kind() == types.Int64) && (b.Kind() == types.Uint8 || b.Kind() == types.Uint16 || b.Kind() == types.Uint32) {
				return true
			}
		}
	}
	v = stripConvNP(v)
	if c, ok := constIntOf(v); ok {
		return c >= 0
	}
	if b, ok := v.Type().Underlying().(*types.Basic); ok && b.Info()&types.IsUnsigned != 0 {
		return true
	}
	switch x := v.(type) {
	case *ssa.Call:
		n := calleeName(&x.Call)
		if n == "builtin:len" || n == "builtin:cap" {
			return true
		}
		if n == "builtin:min" || n == "builtin:max" {
			for _, a := range x.Call.Args {
				if !nonNegative(a) {
					return false
				}
			}
			return true
		}
		return resultNonNegative(x.Call.StaticCallee(), 0, 0)
	case *ssa.Extract:
		if cl, ok := x.Tuple.(*ssa.Call); ok {
			return resultNonNegative(cl.Call.StaticCallee(), x.Index, 0)
		}
	case *ssa.Phi:
		if x.Comment == "rangeindex" {
			return false // starts at -1; the incremented value is what indexes
		}
		// induction variables: every edge non-negative (self edges through +k allowed)
		for _, e := range x.Edges {
			if bo, ok := e.(*ssa.BinOp); ok && bo.Op == token.ADD && bo.X == ssa.Value(x) && nonNegative(bo.Y) {
				continue
			}
			if e == ssa.Value(x) || nonNegative2(e, x) {
				continue
			}
			return false
		}
		return true
	case *ssa.BinOp:
		if x.Op == token.ADD {
			return nonNegative(x.X) && nonNegative(x.Y) || (isRangeIdx(x))
		}
		if x.Op == token.REM || x.Op == token.QUO || x.Op == token.MUL || x.Op == token.AND {
			return nonNegative(x.X) && nonNegative(x.Y)
		}
	}
	return false
}

// nonNegative2 avoids infinite recursion through phis.
func nonNegative2(e ssa.Value, via *ssa.Phi) bool {
	if p, ok := e.(*ssa.Phi); ok && p == via {
		return true
	}
	if _, ok := e.(*ssa.Phi); ok {
		return false
	}
	return nonNegative(e)
}

// resultNonNegative: every return of fn yields a non-negative value for result idx
// (conversions from unsigned, len, constants...).
func resultNonNegative(fn *ssa.Function, idx, depth int) bool {
	if fn == nil || len(fn.Blocks) == 0 || depth > 2 {
		return false
	}
	ok := false
	for _, r := range allReturns(fn) {
		if idx >= len(r.Results) {
			return false
		}
		v := retValue(r, idx)
		if isRejectReturn(fn, r) {
			if c, isC := constIntOf(stripConvNP(v)); isC && c >= 0 {
				continue
			}
		}
		if !nonNegativeD(v, depth+1) {
			return false
		}
		ok = true
	}
	return ok
}

func nonNegativeD(v ssa.Value, depth int) bool {
	if cv, ok := v.(*ssa.Convert); ok {
		if b, ok := cv.X.Type().Underlying().(*types.Basic); ok && b.Info()&types.IsUnsigned != 0 {
			// conversion from a narrower unsigned type
			if tb, ok := cv.Type().Underlying().(*types.Basic); ok && (tb.Kind() == types.Int || tb.Kind() == types.Int64) && (b.Kind() == types.Uint8 || b.Kind() == types.Uint16 || b.Kind() == types.Uint32) {
				return true
			}
		}
	}
	if ex, ok := v.(*ssa.Extract); ok {
		if cl, ok := ex.Tuple.(*ssa.Call); ok {
			return resultNonNegative(cl.Call.StaticCallee(), ex.Index, depth)
		}
	}
	return nonNegative(v)
}

func isRangeIdx(bo *ssa.BinOp) bool {
	ph, ok := bo.X.(*ssa.Phi)
	return ok && ph.Comment == "rangeindex" && ConstInt(1)(bo.Y)
}

// inventory enumerates and tries to discharge the sites of fn.
func (np *nopanic) inventory(fn *ssa.Function) {
	w := np.c.W
	_ = w
	add := func(ins ssa.Instruction, kind, detail, why string) {
		np.sites = append(np.sites, &panicSite{Fn: fn, Ins: ins, Kind: kind, Detail: detail, Why: why})
	}
	if np.skipPanicsIn != nil && np.skipPanicsIn(fn) {
		return // precondition function: accounted for at every call site
	}
	for _, b := range fn.Blocks {
		if b == fn.Recover {
			continue
		}
		for _, ins := range b.Instrs {
			switch x := ins.(type) {
			case *ssa.Panic:
				why := ""
				if np.skipPanicsIn != nil && np.skipPanicsIn(fn) {
					continue // accounted for at the call sites (precondition functions)
				}
				if len(b.Preds) > 1 {
					all := true
					for _, p := range b.Preds {
						iff, ok := p.Instrs[len(p.Instrs)-1].(*ssa.If)
						if !ok || !condRefuted(fn, np.factsAt(fn, p), iff.Cond, p.Succs[0] == b) {
							all = false
						}
					}
					if all {
						why = "every guard refuted by established facts"
					}
					add(ins, "panic", guardText(fn, b), why)
					continue
				}
				// guard refuted by facts?
				es := domEdges(b)
				if len(es) > 0 {
					// facts before the innermost edge: evaluate at the branching block
					pre := np.factsAt(fn, es[0].If.Block())
					if condRefuted(fn, pre, es[0].If.Cond, es[0].Outcome) {
						why = "guard refuted by established facts"
					}
				}
				add(ins, "panic", guardText(fn, b), why)
			case *ssa.IndexAddr:
				np.indexSite(fn, b, ins, x.X, x.Index, add)
			case *ssa.Index:
				np.indexSite(fn, b, ins, x.X, x.Index, add)
			case *ssa.Lookup:
				if _, isStr := x.X.Type().Underlying().(*types.Basic); isStr {
					np.indexSite(fn, b, ins, x.X, x.Index, add)
				}
			case *ssa.Slice:
				np.sliceSite(fn, b, x, add)
			case *ssa.BinOp:
				if (x.Op == token.QUO || x.Op == token.REM) && isIntegerType(x.Type()) {
					if c, ok := constIntOf(x.Y); ok && c != 0 {
						continue
					}
					why := ""
					if t := termOf(fn, x.Y); t != "" {
						iv := np.factsAt(fn, b).get(t)
						if iv.lo > 0 || iv.hi < 0 {
							why = "divisor non-zero by facts"
						}
					}
					add(ins, "div", "divisor "+exprText(fn, x.Y), why)
				}
			case *ssa.TypeAssert:
				if !x.CommaOk {
					add(ins, "assert", typeShort(x.AssertedType), "")
				}
			case *ssa.SliceToArrayPointer:
				add(ins, "convert", "slice to array pointer", "")
			case *ssa.MakeSlice:
				if _, ok := constIntOf(x.Len); !ok && !nonNegative(x.Len) {
					add(ins, "makeslice", "len "+exprText(fn, x.Len), "")
				}
			case *ssa.MapUpdate:
				why := ""
				switch m := x.Map.(type) {
				case *ssa.MakeMap:
					why = "map made locally"
				case *ssa.Parameter:
					why = "map supplied by caller"
					_ = m
				default:
					if _, ok := x.Map.(*ssa.Phi); ok {
						why = ""
					}
				}
				if why == "" {
					add(ins, "mapnil", describeAccess(fn, x.Map), "")
				}
			case *ssa.Call:
				if np.preCall != nil && np.preCall(np, fn, b, x, add) {
					continue
				}
				np.stdCallSite(fn, b, x, add)
			}
		}
	}
}

func isIntegerType(t types.Type) bool {
	b, ok := t.Underlying().(*types.Basic)
	return ok && b.Info()&types.IsInteger != 0
}

func guardText(fn *ssa.Function, b *ssa.BasicBlock) string {
	if len(b.Preds) > 1 {
		var parts []string
		for _, p := range b.Preds {
			if iff, ok := p.Instrs[len(p.Instrs)-1].(*ssa.If); ok {
				parts = append(parts, condText(fn, iff.Cond, p.Succs[0] == b))
			}
		}
		sort.Strings(parts)
		if len(parts) > 0 {
			return strings.Join(parts, " or ")
		}
	}
	es := domEdges(b)
	if len(es) == 0 {
		return "unconditional"
	}
	return condText(fn, es[0].If.Cond, es[0].Outcome)
}

// allGuardsText: every dominating branch condition of b with its outcome, outermost last.
func allGuardsText(fn *ssa.Function, b *ssa.BasicBlock) string {
	var parts []string
	for _, e := range domEdges(b) {
		parts = append(parts, condText(fn, e.If.Cond, e.Outcome))
	}
	return strings.Join(parts, " ;; ")
}

func condText(fn *ssa.Function, cond ssa.Value, outcome bool) string {
	s := exprText(fn, cond)
	if !outcome {
		return "!(" + s + ")"
	}
	return s
}

func exprText(fn *ssa.Function, v ssa.Value) string {
	v = stripConvNP(v)
	switch x := v.(type) {
	case *ssa.BinOp:
		return exprText(fn, x.X) + x.Op.String() + exprText(fn, x.Y)
	case *ssa.Const:
		if x.Value == nil {
			return "nil"
		}
		return x.Value.ExactString()
	case *ssa.Call:
		n := calleeName(&x.Call)
		var as []string
		for _, a := range callArgs(&x.Call) {
			as = append(as, exprText(fn, a))
		}
		return n + "(" + strings.Join(as, ",") + ")"
	case *ssa.UnOp:
		if x.Op == token.NOT {
			return "!" + exprText(fn, x.X)
		}
		if x.Op == token.MUL {
			return describeAccess(fn, x)
		}
	case *ssa.Parameter:
		return rootKey(fn, x)
	case *ssa.Phi:
		return "φ" + x.Comment
	case *ssa.Extract:
		return exprText(fn, x.Tuple) + "#" + fmt.Sprint(x.Index)
	case *ssa.Lookup:
		return exprText(fn, x.X) + "[" + exprText(fn, x.Index) + "]"
	}
	if t := termOf(fn, v); t != "" {
		return t
	}
	return v.Type().String()
}

// condRefuted: under facts f, cond cannot evaluate to outcome.
func condRefuted(fn *ssa.Function, f facts, cond ssa.Value, outcome bool) bool {
	bo, ok := cond.(*ssa.BinOp)
	if !ok {
		return false
	}
	term, c, op := "", int64(0), bo.Op
	if t, off := termOff(fn, bo.X); t != "" {
		if k, ok := constIntOf(stripConvNP(bo.Y)); ok {
			term, c = t, k-off
		}
	} else if t, off := termOff(fn, bo.Y); t != "" {
		if k, ok := constIntOf(stripConvNP(bo.X)); ok {
			term, c = t, k-off
			op = map[token.Token]token.Token{token.LSS: token.GTR, token.LEQ: token.GEQ, token.GTR: token.LSS, token.GEQ: token.LEQ, token.EQL: token.EQL, token.NEQ: token.NEQ}[op]
		}
	}
	if term == "" {
		return false
	}
	iv := f.get(term)
	var always, never bool
	switch op {
	case token.LSS:
		always, never = iv.hi < c, iv.lo >= c
	case token.LEQ:
		always, never = iv.hi <= c, iv.lo > c
	case token.GTR:
		always, never = iv.lo > c, iv.hi <= c
	case token.GEQ:
		always, never = iv.lo >= c, iv.hi < c
	case token.EQL:
		always, never = iv.lo == c && iv.hi == c, iv.lo > c || iv.hi < c
	case token.NEQ:
		always, never = iv.lo > c || iv.hi < c, iv.lo == c && iv.hi == c
	default:
		return false
	}
	if outcome {
		return never
	}
	return always
}

func (np *nopanic) indexSite(fn *ssa.Function, b *ssa.BasicBlock, ins ssa.Instruction, x, idx ssa.Value, add func(ssa.Instruction, string, string, string)) {
	arr := arrayLenOfPtr(x.Type())
	detail := describeAccess(fn, x) + "[" + exprText(fn, idx) + "]"
	if c, ok := constIntOf(stripConvNP(idx)); ok {
		if arr >= 0 {
			if c >= 0 && c < arr {
				return // constant index into a fixed array: never panics (not even recorded)
			}
			add(ins, "index", detail, "")
			return
		}
		// constant index into a slice/string: need len >= c+1
		term := "len:" + describeAccess(fn, x)
		iv := np.factsAt(fn, b).get(term)
		why := ""
		if iv.lo > c && !pathMutable(np, term) {
			why = fmt.Sprintf("len >= %d established on every path", iv.lo)
		} else if mk := madeWithLen(x); mk >= 0 && c < mk {
			why = "slice made with constant length"
		}
		add(ins, "index", detail, why)
		return
	}
	why := ""
	switch {
	case lenMinusK(np, fn, b, idx, x):
		why = "index len-k with len >= k established"
	case sortComparatorIndex(fn, idx, x):
		why = "sort comparator contract: indexes are valid positions of the sorted slice"
	case isRangeIndexOf(idx, x):
		why = "range index over the same slice"
	case arr > 0 && boundedByMask(idx, arr):
		why = "index masked/modulo below the array length"
	case np.indexBoundedBy(fn, b, idx, "len:"+describeAccess(fn, x), arr) && (nonNegative(idx) || np.factsAt(fn, b).get(termOf(fn, idx)).lo >= 0 && termOf(fn, idx) != ""):
		why = "dominating comparison index < len"
	case forLoopBounded(idx, x):
		why = "for-loop induction variable bounded by len of the same slice"
	case sameLenSlices(np, fn, b, idx, x):
		why = "range index over a slice made with the same length"
	}
	add(ins, "index", detail, why)
}

// lenMinusK: idx = len(x) - k with k >= 1 constant and len(x) >= k on every path.
func lenMinusK(np *nopanic, fn *ssa.Function, b *ssa.BasicBlock, idx, x ssa.Value) bool {
	bo, ok := stripConvNP(idx).(*ssa.BinOp)
	if !ok || bo.Op != token.SUB {
		return false
	}
	k, isC := constIntOf(bo.Y)
	if !isC || k < 1 {
		return false
	}
	ln, ok := stripConvNP(bo.X).(*ssa.Call)
	if !ok || calleeName(&ln.Call) != "builtin:len" || !(ln.Call.Args[0] == x || sameAccess(ln.Call.Args[0], x)) {
		return false
	}
	term := "len:" + describeAccess(fn, x)
	return np.factsAt(fn, b).get(term).lo >= k && !pathMutable(np, term)
}

// sortComparatorIndex: fn is the less/compare closure handed to sort.Slice and the
// index is one of its own parameters applied to the captured slice being sorted.
func sortComparatorIndex(fn *ssa.Function, idx, x ssa.Value) bool {
	if fn.Parent() == nil {
		return false
	}
	if _, ok := stripConvNP(idx).(*ssa.Parameter); !ok {
		return false
	}
	r, _ := accessPath(x)
	fv, ok := r.(*ssa.FreeVar)
	if !ok {
		return false
	}
	used := false
	eachInstr(fn.Parent(), func(b *ssa.BasicBlock, ins ssa.Instruction) {
		ci, ok := ins.(ssa.CallInstruction)
		if !ok || calleeName(ci.Common()) != "sort.Slice" {
			return
		}
		if mc, ok := ci.Common().Args[1].(*ssa.MakeClosure); ok && mc.Fn == ssa.Value(fn) {
			// the captured binding must be the slice passed to sort.Slice
			for i, b := range mc.Bindings {
				if fn.FreeVars[i] == fv {
					if Has(func(v ssa.Value) bool { return v == b })(ci.Common().Args[0]) {
						used = true
					}
				}
			}
		}
	})
	return used
}

// madeWithLen: x is (a slice of) a fresh allocation with constant length.
func madeWithLen(x ssa.Value) int64 {
	switch s := x.(type) {
	case *ssa.Slice:
		if a, ok := s.X.(*ssa.Alloc); ok {
			return arrayLenOfPtr(a.Type())
		}
	case *ssa.MakeSlice:
		if c, ok := constIntOf(s.Len); ok {
			return c
		}
	}
	return -1
}

// boundedByMask: idx = y % N, y & (N-1) with N <= arr, or a byte/uint8 index into an array of >= 256.
func boundedByMask(idx ssa.Value, arr int64) bool {
	v := stripConvNP(idx)
	if bo, ok := v.(*ssa.BinOp); ok {
		if c, isC := constIntOf(bo.Y); isC {
			if bo.Op == token.REM && c > 0 && c <= arr && nonNegative(bo.X) {
				return true
			}
			if bo.Op == token.AND && c >= 0 && c < arr {
				return true
			}
		}
	}
	if b, ok := idx.Type().Underlying().(*types.Basic); ok && b.Kind() == types.Uint8 && arr >= 256 {
		return true
	}
	if cv, ok := idx.(*ssa.Convert); ok {
		if b, ok := cv.X.Type().Underlying().(*types.Basic); ok && b.Kind() == types.Uint8 && arr >= 256 {
			return true
		}
	}
	return false
}

// forLoopBounded: idx is a phi of a `for i := k; i < len(x); i++` loop over this x.
func forLoopBounded(idx, x ssa.Value) bool {
	ph, ok := stripConvNP(idx).(*ssa.Phi)
	if !ok {
		return false
	}
	hb := ph.Block()
	iff, ok := hb.Instrs[len(hb.Instrs)-1].(*ssa.If)
	if !ok {
		return false
	}
	cmp, ok := iff.Cond.(*ssa.BinOp)
	if !ok || cmp.Op != token.LSS || stripConvNP(cmp.X) != ssa.Value(ph) {
		return false
	}
	ln, ok := stripConvNP(cmp.Y).(*ssa.Call)
	if !ok || calleeName(&ln.Call) != "builtin:len" {
		return false
	}
	if ln.Call.Args[0] != x && !sameAccess(ln.Call.Args[0], x) {
		return false
	}
	// initial value non-negative
	for i, e := range ph.Edges {
		if !hb.Dominates(hb.Preds[i]) && !nonNegative(e) {
			return false
		}
	}
	return true
}

// sameLenSlices: idx ranges over slice A and x was made with len(A) (make([]T, len(A))).
func sameLenSlices(np *nopanic, fn *ssa.Function, b *ssa.BasicBlock, idx, x ssa.Value) bool {
	bo, ok := stripConvNP(idx).(*ssa.BinOp)
	if !ok || !isRangeIdx(bo) {
		return false
	}
	hb := bo.X.(*ssa.Phi).Block()
	iff, ok := hb.Instrs[len(hb.Instrs)-1].(*ssa.If)
	if !ok {
		return false
	}
	cmp, ok := iff.Cond.(*ssa.BinOp)
	if !ok {
		return false
	}
	ln, ok := cmp.Y.(*ssa.Call)
	if !ok || calleeName(&ln.Call) != "builtin:len" {
		return false
	}
	ranged := ln.Call.Args[0]
	// x = make([]T, len(ranged)) ?
	mk, ok := x.(*ssa.MakeSlice)
	if !ok {
		return false
	}
	l2, ok := stripConvNP(mk.Len).(*ssa.Call)
	return ok && calleeName(&l2.Call) == "builtin:len" && (l2.Call.Args[0] == ranged || sameAccess(l2.Call.Args[0], ranged))
}

func (np *nopanic) sliceSite(fn *ssa.Function, b *ssa.BasicBlock, x *ssa.Slice, add func(ssa.Instruction, string, string, string)) {
	arr := arrayLenOfPtr(x.X.Type())
	if x.Low == nil && x.High == nil && x.Max == nil {
		return // full slice: cannot fail on bounds
	}
	lo, hi := int64(0), int64(-1)
	loC, hiC := true, x.High == nil
	if x.Low != nil {
		lo, loC = constIntOf(stripConvNP(x.Low))
	}
	if x.High != nil {
		hi, hiC = constIntOf(stripConvNP(x.High))
	}
	detail := describeAccess(fn, x.X) + "[" + boundText(fn, x.Low) + ":" + boundText(fn, x.High) + "]"
	why := ""
	if arr >= 0 {
		if loC && (x.High == nil || hiC) {
			h := hi
			if x.High == nil {
				h = arr
			}
			if 0 <= lo && lo <= h && h <= arr {
				return // constant bounds inside a fixed array
			}
		}
	} else {
		term := "len:" + describeAccess(fn, x.X)
		iv := np.factsAt(fn, b).get(term)
		need := int64(-1)
		if loC && hiC && x.High != nil && lo <= hi {
			need = hi
		} else if loC && x.High == nil {
			need = lo
		}
		if need >= 0 && iv.lo >= need && !pathMutable(np, term) {
			why = fmt.Sprintf("len >= %d established on every path", iv.lo)
		}
		if why == "" {
			// P[a : len(P)-k]  needs len >= a+k ;  P[len(P)-k:] needs len >= k
			lenK := func(v ssa.Value) (int64, bool) {
				bo, ok := stripConvNP(v).(*ssa.BinOp)
				if !ok || bo.Op != token.SUB {
					return 0, false
				}
				k, isC := constIntOf(bo.Y)
				ln, isL := stripConvNP(bo.X).(*ssa.Call)
				if !isC || !isL || calleeName(&ln.Call) != "builtin:len" || !sameAccess(ln.Call.Args[0], x.X) {
					return 0, false
				}
				return k, true
			}
			if x.High != nil && loC {
				if k, ok := lenK(x.High); ok && k >= 0 && iv.lo >= lo+k && !pathMutable(np, term) {
					why = "len >= low+k established for P[low:len-k]"
				}
			}
			if x.High == nil && x.Low != nil {
				if k, ok := lenK(x.Low); ok && k >= 0 && iv.lo >= k && !pathMutable(np, term) {
					why = "len >= k established for P[len-k:]"
				}
			}
		}
		if why == "" && x.High != nil && loC && lo == 0 {
			// s[:n] with n == len(s) or n <= len by dominating comparison
			if ln, ok := stripConvNP(x.High).(*ssa.Call); ok && calleeName(&ln.Call) == "builtin:len" && sameAccess(ln.Call.Args[0], x.X) {
				why = "upper bound is len of the same slice"
			}
			if mk := madeWithLen(x.X); mk >= 0 && hiC && hi <= mk {
				why = "slice made with constant length"
			}
		}
		if why == "" && x.High != nil && np.sliceBoundedBy(fn, b, x.High, term) && (loC && lo == 0 || x.Low != nil && np.lowLEHigh(fn, b, x.Low, x.High)) {
			why = "dominating comparison bound <= len"
		}
		if why == "" && x.High == nil && x.Low != nil && np.sliceBoundedBy(fn, b, x.Low, term) {
			why = "dominating comparison low <= len"
		}
	}
	add(x, "slice", detail, why)
}

func boundText(fn *ssa.Function, v ssa.Value) string {
	if v == nil {
		return ""
	}
	return exprText(fn, v)
}

// sliceBoundedBy: a dominating edge asserts bound <= len(term) (i.e. len < bound rejects).
func (np *nopanic) sliceBoundedBy(fn *ssa.Function, b *ssa.BasicBlock, bound ssa.Value, lenTerm string) bool {
	b0 := stripConvNP(bound)
	if c, ok := constIntOf(b0); ok {
		return np.factsAt(fn, b).get(lenTerm).lo >= c
	}
	// bound = k + S (k constant): proved by a dominating `len(P[k:]) >= S`, i.e. len(P)-k >= S.
	// The sum cannot wrap in a >=32-bit type because S <= len(P)-k < 2^31 (slice-length assumption).
	var sumK int64 = -1
	var sumS ssa.Value
	var sumBo *ssa.BinOp
	if ad, ok := b0.(*ssa.BinOp); ok && ad.Op == token.ADD {
		if k, isC := constIntOf(stripConvNP(ad.X)); isC && k >= 0 {
			sumK, sumS, sumBo = k, stripConvNP(ad.Y), ad
		} else if k, isC := constIntOf(stripConvNP(ad.Y)); isC && k >= 0 {
			sumK, sumS, sumBo = k, stripConvNP(ad.X), ad
		}
		if _, _, bits := intShape(ad.Type()); bits < 32 {
			sumK = -1
		}
	}
	for _, e := range domEdges(b) {
		bo, ok := e.If.Cond.(*ssa.BinOp)
		if !ok {
			continue
		}
		x, y := stripConvNP(bo.X), stripConvNP(bo.Y)
		op := bo.Op
		if !e.Outcome {
			op = map[token.Token]token.Token{token.LSS: token.GEQ, token.LEQ: token.GTR, token.GTR: token.LEQ, token.GEQ: token.LSS}[op]
		}
		// len(P) >= bound | bound <= len(P)
		if termOf(fn, x) == lenTerm && sameValueExpr(y, b0) && (op == token.GEQ || op == token.GTR) {
			return true
		}
		if termOf(fn, y) == lenTerm && sameValueExpr(x, b0) && (op == token.LEQ || op == token.LSS) {
			return true
		}
		// len(P[E:]) >= c  =>  E + j <= len(P) for every constant j <= c (E any expression)
		if c, isC := constIntOf(y); isC && (op == token.GEQ || op == token.GTR) {
			if op == token.GTR {
				c++
			}
			if ln, ok := x.(*ssa.Call); ok && calleeName(&ln.Call) == "builtin:len" {
				if sl, ok := stripConvNP(ln.Call.Args[0]).(*ssa.Slice); ok && sl.Low != nil && sl.High == nil && sl.Max == nil && arrayLenOfPtr(sl.X.Type()) < 0 {
					r, p := accessPath(stripConvNP(sl.X))
					if "len:"+rootKey(fn, r)+"."+strings.Join(p, ".") == lenTerm {
						gb, goff := flatAdd(sl.Low)
						bb, boff := flatAdd(b0)
						if _, gconst := constIntOf(gb); !gconst && sameValueExpr(gb, bb) && boff <= goff+c {
							return true
						}
					}
				}
			}
		}
		if sumK >= 0 {
			if t, off := termOff(fn, x); t == lenTerm && off == -sumK && sameValueExpr(y, sumS) && (op == token.GEQ || op == token.GTR) {
				np.noWrap[sumBo] = true
				return true
			}
			if t, off := termOff(fn, y); t == lenTerm && off == -sumK && sameValueExpr(x, sumS) && (op == token.LEQ || op == token.LSS) {
				np.noWrap[sumBo] = true
				return true
			}
		}
	}
	return false
}

func (np *nopanic) lowLEHigh(fn *ssa.Function, b *ssa.BasicBlock, lo, hi ssa.Value) bool {
	l, h := stripConvNP(lo), stripConvNP(hi)
	// hi = lo + k (k >= 0)
	if bo, ok := h.(*ssa.BinOp); ok && bo.Op == token.ADD && (!narrowAddMayWrap(bo) || np.noWrap[bo]) {
		if sameValueExpr(stripConvNP(bo.X), l) && nonNegative(bo.Y) || sameValueExpr(stripConvNP(bo.Y), l) && nonNegative(bo.X) {
			return true
		}
	}
	lc, lok := constIntOf(l)
	hc, hok := constIntOf(h)
	if lok && hok {
		return lc <= hc
	}
	// same base, constant offsets: E+i <= E+j
	lb, lo2 := flatAdd(l)
	hb, ho2 := flatAdd(h)
	if _, isC := constIntOf(lb); !isC && sameValueExpr(lb, hb) && lo2 <= ho2 {
		return true
	}
	return false
}

// flatAdd decomposes v into base + off through constant additions that cannot wrap.
func flatAdd(v ssa.Value) (ssa.Value, int64) {
	v = stripConvNP(v)
	if bo, ok := v.(*ssa.BinOp); ok && bo.Op == token.ADD && !narrowAddMayWrap(bo) {
		if c, isC := constIntOf(stripConvNP(bo.Y)); isC {
			b, o := flatAdd(bo.X)
			return b, o + c
		}
		if c, isC := constIntOf(stripConvNP(bo.X)); isC {
			b, o := flatAdd(bo.Y)
			return b, o + c
		}
	}
	return v, 0
}

// sameValueExpr: syntactically equal pure integer expressions (no CSE in go/ssa).
func sameValueExpr(a, b ssa.Value) bool {
	a, b = stripConvNP(a), stripConvNP(b)
	if a == b {
		return true
	}
	ca, oka := constIntOf(a)
	cb, okb := constIntOf(b)
	if oka && okb {
		return ca == cb
	}
	switch x := a.(type) {
	case *ssa.BinOp:
		y, ok := b.(*ssa.BinOp)
		return ok && x.Op == y.Op && sameValueExpr(x.X, y.X) && sameValueExpr(x.Y, y.Y)
	case *ssa.Call:
		y, ok := b.(*ssa.Call)
		if !ok || calleeName(&x.Call) != calleeName(&y.Call) || calleeName(&x.Call) != "builtin:len" {
			return false
		}
		return sameAccess(x.Call.Args[0], y.Call.Args[0])
	case *ssa.UnOp:
		y, ok := b.(*ssa.UnOp)
		return ok && x.Op == token.MUL && y.Op == token.MUL && sameAccess(x, y)
	}
	return false
}

var stdPanicCalls = map[string]int{ // callee -> minimal length of the []byte argument (index 1 after receiver)
	"(encoding/binary.bigEndian).Uint16": 2, "(encoding/binary.bigEndian).Uint32": 4, "(encoding/binary.bigEndian).Uint64": 8,
	"(encoding/binary.bigEndian).PutUint16": 2, "(encoding/binary.bigEndian).PutUint32": 4, "(encoding/binary.bigEndian).PutUint64": 8,
	"(encoding/binary.littleEndian).Uint64": 8, "(encoding/binary.littleEndian).Uint32": 4,
}

func (np *nopanic) stdCallSite(fn *ssa.Function, b *ssa.BasicBlock, cl *ssa.Call, add func(ssa.Instruction, string, string, string)) {
	n := calleeName(&cl.Call)
	if need, ok := stdPanicCalls[n]; ok {
		arg := cl.Call.Args[1]
		why := ""
		if s, isSl := arg.(*ssa.Slice); isSl {
			if arr := arrayLenOfPtr(s.X.Type()); arr >= 0 {
				lo := int64(0)
				if s.Low != nil {
					lo, _ = constIntOf(s.Low)
				}
				hi := arr
				if s.High != nil {
					hi, _ = constIntOf(s.High)
				}
				if hi-lo >= int64(need) {
					why = "fixed-size buffer"
				}
			} else if s.High != nil && s.Low != nil {
				lc, lok := constIntOf(stripConvNP(s.Low))
				hc, hok := constIntOf(stripConvNP(s.High))
				if lok && hok && hc-lc >= int64(need) {
					why = "constant-width window (bounds checked as a slice site)"
				} else if np.lowPlus(s.Low, s.High, int64(need)) {
					why = "window of the needed width (bounds checked as a slice site)"
				}
			} else if s.High != nil && s.Low == nil {
				if hc, ok := constIntOf(stripConvNP(s.High)); ok && hc >= int64(need) {
					why = "constant-width window (bounds checked as a slice site)"
				}
			}
		}
		if why == "" {
			term := "len:" + describeAccess(fn, arg)
			if np.factsAt(fn, b).get(term).lo >= int64(need) {
				why = "len established on every path"
			}
		}
		if why == "" {
			if mk := madeWithLen(arg); mk >= int64(need) {
				why = "buffer made with sufficient constant length"
			}
		}
		add(cl, "stdcall", n+"("+describeAccess(fn, arg)+")", why)
		return
	}
	switch n {
	case "(*math/big.Int).Div", "(*math/big.Int).Quo", "(*math/big.Int).Mod", "(*math/big.Int).Rem", "(*math/big.Int).DivMod", "(*math/big.Int).QuoRem":
		add(cl, "stdcall", n, "")
	case "(*math/big.Int).FillBytes":
		add(cl, "stdcall", n, "")
	case "strings.Repeat":
		add(cl, "stdcall", n, "")
	}
}

func (np *nopanic) lowPlus(lo, hi ssa.Value, need int64) bool {
	h := stripConvNP(hi)
	if bo, ok := h.(*ssa.BinOp); ok && bo.Op == token.ADD {
		if c, isC := constIntOf(bo.Y); isC && c >= need && sameValueExpr(bo.X, lo) {
			return true
		}
	}
	return false
}

// ---- nil-dereference of boundary / maybe-nil results

func (np *nopanic) nilSites(fn *ssa.Function, maybeNil func(v ssa.Value) string) {
	eachInstr(fn, func(b *ssa.BasicBlock, ins ssa.Instruction) {
		var base ssa.Value
		switch x := ins.(type) {
		case *ssa.FieldAddr:
			base = x.X
		case *ssa.UnOp:
			if x.Op == token.MUL {
				if _, isPtr := x.X.Type().Underlying().(*types.Pointer); isPtr {
					base = x.X
				}
			}
		case *ssa.Call:
			// method call with pointer receiver dereferenced inside: treat receiver as dereferenced
			if cal := x.Call.StaticCallee(); cal != nil && cal.Signature.Recv() != nil && len(x.Call.Args) > 0 {
				if _, isPtr := x.Call.Args[0].Type().Underlying().(*types.Pointer); isPtr {
					base = x.Call.Args[0]
				}
			}
		}
		if base == nil {
			return
		}
		src := maybeNil(base)
		if src == "" {
			return
		}
		why := ""
		if knownNonNilPtr(base, b) {
			why = "dominating nil test"
		}
		np.sites = append(np.sites, &panicSite{Fn: fn, Ins: ins, Kind: "nilderef", Detail: src, Why: why})
	})
}

// knownNonNilPtr: a dominating edge asserts v != nil.
func knownNonNilPtr(v ssa.Value, b *ssa.BasicBlock) bool {
	for _, e := range domEdges(b) {
		bo, ok := e.If.Cond.(*ssa.BinOp)
		if !ok {
			continue
		}
		var other ssa.Value
		if bo.X == v || sameExprDeep(bo.X, v, 0) {
			other = bo.Y
		} else if bo.Y == v || sameExprDeep(bo.Y, v, 0) {
			other = bo.X
		} else {
			continue
		}
		if !ConstNil(other) {
			continue
		}
		if bo.Op == token.NEQ && e.Outcome || bo.Op == token.EQL && !e.Outcome {
			return true
		}
	}
	return false
}

// sameExprDeep: two SSA values are the same pure read expression (go/ssa has no CSE, so a guard
// `m[0][0] == nil` and a later `*m[0][0]` are distinct instructions). Loads are compared
// structurally; an intervening store to the same location is not modelled (straight-line
// validation code; recorded assumption).
func sameExprDeep(a, b ssa.Value, depth int) bool {
	if a == b {
		return true
	}
	if depth > 8 {
		return false
	}
	switch x := a.(type) {
	case *ssa.Const:
		y, ok := b.(*ssa.Const)
		if !ok {
			return false
		}
		ca, oka := constIntOf(x)
		cb, okb := constIntOf(y)
		return oka && okb && ca == cb
	case *ssa.UnOp:
		y, ok := b.(*ssa.UnOp)
		return ok && x.Op == y.Op && x.Op == token.MUL && sameExprDeep(x.X, y.X, depth+1)
	case *ssa.IndexAddr:
		y, ok := b.(*ssa.IndexAddr)
		return ok && sameExprDeep(x.X, y.X, depth+1) && sameExprDeep(x.Index, y.Index, depth+1)
	case *ssa.FieldAddr:
		y, ok := b.(*ssa.FieldAddr)
		return ok && x.Field == y.Field && sameExprDeep(x.X, y.X, depth+1)
	case *ssa.Lookup:
		y, ok := b.(*ssa.Lookup)
		return ok && !x.CommaOk && !y.CommaOk && sameExprDeep(x.X, y.X, depth+1) && sameExprDeep(x.Index, y.Index, depth+1)
	case *ssa.Convert:
		y, ok := b.(*ssa.Convert)
		return ok && types.Identical(x.Type(), y.Type()) && sameExprDeep(x.X, y.X, depth+1)
	}
	return false
}

// ---- table

type tableEntry struct {
	Count    int
	Reason   string
	Requires []string // substrings that must occur in the dominating-guard text of every site covered by the entry
	used     int
}

func loadNopanicTable(id string) map[string]*tableEntry {
	out := map[string]*tableEntry{}
	data, err := os.ReadFile(filepath.Join(verifDir(), "tables", "nopanic_"+id+".tsv"))
	if err != nil {
		return out
	}
	for _, l := range strings.Split(string(data), "\n") {
		if l == "" || strings.HasPrefix(l, "#") {
			continue
		}
		f := strings.Split(l, "\t")
		if len(f) < 5 {
			continue
		}
		n := 1
		fmt.Sscan(f[3], &n)
		te := &tableEntry{Count: n, Reason: f[4]}
		if len(f) >= 6 && strings.TrimSpace(f[5]) != "" {
			for _, r := range strings.Split(f[5], " && ") {
				te.Requires = append(te.Requires, strings.TrimSpace(r))
			}
		}
		out[f[0]+"|"+f[1]+"|"+f[2]] = te
	}
	return out
}

// run executes the whole analysis and records obligations.
func (np *nopanic) run(id string, maybeNil func(fn *ssa.Function) func(v ssa.Value) string) {
	c := np.c
	np.noWrap = map[*ssa.BinOp]bool{}
	np.walk()
	np.collectStored()
	np.computeEntryFacts()
	for _, f := range np.reach {
		np.inventory(f)
		if maybeNil != nil {
			np.nilSites(f, maybeNil(f))
		}
		c.Funcs[shortName(f)] = true
	}
	table := loadNopanicTable(id)
	kinds := map[string]int{}
	discharged, tabled := 0, 0
	type grp struct {
		key   string
		sites []*panicSite
	}
	groups := map[string]*grp{}
	var order []string
	for _, s := range np.sites {
		kinds[s.Kind]++
		c.Sites++
		if s.Why != "" {
			discharged++
			continue
		}
		k := shortName(s.Fn) + "|" + s.Kind + "|" + s.Detail
		if groups[k] == nil {
			groups[k] = &grp{key: k}
			order = append(order, k)
		}
		groups[k].sites = append(groups[k].sites, s)
	}
	sort.Strings(order)
	var dump []string
	for _, k := range order {
		g := groups[k]
		te := table[k]
		var pos []string
		for _, s := range g.sites {
			pos = append(pos, instrPos(c.W, s.Ins))
		}
		if os.Getenv("MIXVET_DUMP_GUARDS") != "" {
			for _, s := range g.sites {
				fmt.Printf("GUARDS\t%s\t%s\n", k, allGuardsText(s.Fn, s.Ins.Block()))
			}
		}
		if te != nil && te.Count >= len(g.sites) && len(te.Requires) > 0 {
			missing := ""
			for _, s := range g.sites {
				gt := allGuardsText(s.Fn, s.Ins.Block())
				for _, r := range te.Requires {
					if !strings.Contains(gt, r) {
						missing = r
					}
				}
			}
			if missing != "" {
				c.Fail("nopanic", k, "the reviewed invariant of this site relies on a dominating guard that must still be present",
					fmt.Sprintf("guard [%s] no longer dominates the site %s (reviewed reason: %s); call chain: %s", missing, g.sites[0].Detail, te.Reason, np.chain(g.sites[0].Fn)), pos...)
				continue
			}
		}
		if te != nil && te.Count >= len(g.sites) {
			te.used = len(g.sites)
			tabled += len(g.sites)
			c.OK("nopanic-tabled", k, "site protected by a reviewed invariant: "+te.Reason, pos...)
			continue
		}
		have := 0
		if te != nil {
			have = te.Count
		}
		dump = append(dump, fmt.Sprintf("%s\t%d", strings.ReplaceAll(k, "|", "\t"), len(g.sites)))
		c.Fail("nopanic", k, "every instruction that can panic on the path from "+shortName(np.entry)+" is guarded or covered by a reviewed invariant",
			fmt.Sprintf("%d unguarded site(s) of kind %s (%d tabled): %s; call chain: %s", len(g.sites), g.sites[0].Kind, have, g.sites[0].Detail, np.chain(g.sites[0].Fn)), pos...)
	}
	// stale table entries are harmless but reported in evidence
	var stale []string
	for k, te := range table {
		if te.used == 0 {
			stale = append(stale, k)
		}
	}
	sort.Strings(stale)
	if os.Getenv("MIXVET_DUMP_SITES") != "" {
		for _, d := range dump {
			fmt.Println("UNGUARDED\t" + d)
		}
	}
	c.OK("nopanic-inventory", shortName(np.entry), fmt.Sprintf("%d reachable functions, %d panic-capable sites: %d discharged structurally, %d covered by the reviewed table, %d unguarded", len(np.reach), len(np.sites), discharged, tabled, len(np.sites)-discharged-tabled), c.W.Pos(np.entry.Pos()))
	if c.Extra == nil {
		c.Extra = map[string]any{}
	}
	c.Extra["nopanic_reachable_functions"] = len(np.reach)
	c.Extra["nopanic_sites_by_kind"] = kinds
	c.Extra["nopanic_discharged"] = discharged
	c.Extra["nopanic_tabled"] = tabled
	c.Extra["nopanic_stale_table_entries"] = stale
}

var _ = constant.MakeInt64
