package main

import (
	"fmt"
	"go/token"
	"strings"

	"golang.org/x/tools/go/ssa"
)

// E1 gates: must-pass-through by gate-edge removal on the SSA control-flow graph.

// Gate names a conditional branch by the structure of its condition and says which
// outcome is the failing side.
type Gate struct {
	Name         string
	Cond         VM
	RejectOnTrue bool // true: the true-successor is the failing side, pass edge = false-successor
	Min          int  // minimum number of matching branches (default 1)
}

type passOpt struct {
	from   *ssa.BasicBlock
	toBlks []*ssa.BasicBlock
}

// passEdges returns the pass edges of all branches matching g, with their sites.
func (c *Check) passEdges(fn *ssa.Function, g Gate) (map[Edge]bool, []string) {
	cut := map[Edge]bool{}
	var sites []string
	for _, i := range findIfs(fn, g.Cond) {
		b := i.Block()
		pass := b.Succs[0]
		if g.RejectOnTrue {
			pass = b.Succs[1]
		}
		cut[Edge{b.Index, pass.Index}] = true
		sites = append(sites, ifPos(c.W, i))
	}
	c.Sites += len(fn.Blocks)
	return cut, sites
}

// MustPass: every path from the function entry (or from `from`) to any target
// instruction traverses the pass edge of a branch matching g. Targets are identified
// by the caller (accept returns, effect calls...). desc says what the gate protects.
func (c *Check) MustPass(fn *ssa.Function, g Gate, targets []ssa.Instruction, what string) bool {
	return c.mustPassFrom(fn, nil, g, targets, what)
}

func (c *Check) mustPassFrom(fn *ssa.Function, from *ssa.BasicBlock, g Gate, targets []ssa.Instruction, what string) bool {
	return c.MustPassAny(fn, from, g.Name, []Gate{g}, targets, what)
}

// MustPassAny: the pass edges of all listed gates together cut every path to the targets
// (alternative checks on different branches, e.g. aggregate vs batch verification).
// Every listed gate must be present.
func (c *Check) MustPassAny(fn *ssa.Function, from *ssa.BasicBlock, name string, gs []Gate, targets []ssa.Instruction, what string) bool {
	if fn == nil {
		return false
	}
	key := shortName(fn) + "|" + name
	desc := fmt.Sprintf("every path to %s passes the success edge of gate [%s]", what, name)
	cut := map[Edge]bool{}
	var sites []string
	for _, g := range gs {
		gc, gsites := c.passEdges(fn, g)
		min := g.Min
		if min == 0 {
			min = 1
		}
		if len(gc) < min {
			c.Fail("gate", key, desc, fmt.Sprintf("gate [%s] not found: %d matching branches in %s (need >= %d): the check was removed or its condition changed", g.Name, len(gc), shortName(fn), min), c.W.Pos(fn.Pos()))
			return false
		}
		for e := range gc {
			cut[e] = true
		}
		sites = append(sites, gsites...)
	}
	if len(targets) == 0 {
		c.Fail("gate", key, desc, "no target (accept point / effect) located in "+shortName(fn), c.W.Pos(fn.Pos()))
		return false
	}
	start := fn.Blocks[0]
	if from != nil {
		start = from
	}
	seen := reachable(fn, start, cut)
	for _, t := range targets {
		if seen[t.Block().Index] {
			path := describePath(c.W, fn, start, cut, t.Block())
			c.Fail("gate", key, desc, fmt.Sprintf("target at %s is reachable without passing the gate; bypass path: %s", instrPos(c.W, t), path), append(sites, instrPos(c.W, t))...)
			return false
		}
	}
	c.OK("gate", key, desc, sites...)
	return true
}

// LoopGate: within the loop whose header is hdr and whose body entry is body, every
// path from the body entry that completes the iteration (returns to hdr) or leaves the
// loop to a non-reject continuation passes the gate. Used for "for every element ..."
// clauses, where a whole-function test would always see the zero-iteration path.
func (c *Check) LoopGate(fn *ssa.Function, lp *Loop, g Gate, what string) bool {
	if fn == nil || lp == nil {
		return false
	}
	key := shortName(fn) + "|loop:" + lp.Name + "|" + g.Name
	desc := fmt.Sprintf("every completed iteration of loop %s passes gate [%s] (%s)", lp.Name, g.Name, what)
	cut, sites := c.passEdges(fn, g)
	// only count gates inside the loop
	inLoop := map[Edge]bool{}
	for e := range cut {
		if lp.Blocks[e.From] {
			inLoop[e] = true
		}
	}
	if len(inLoop) == 0 {
		c.Fail("loopgate", key, desc, "gate not found inside the loop body", c.W.Pos(fn.Pos()))
		return false
	}
	// cut also the loop-exit edge from header so that reaching hdr is the target
	seen := reachable(fn, lp.Body, inLoop)
	if seen[lp.Header.Index] {
		path := describePath(c.W, fn, lp.Body, inLoop, lp.Header)
		c.Fail("loopgate", key, desc, "an iteration can complete without passing the gate; path: "+path, sites...)
		return false
	}
	// exits from the loop other than via header: must be reject returns or panics
	for bi := range seen {
		b := fn.Blocks[bi]
		if lp.Blocks[bi] {
			continue
		}
		// b is outside the loop, reached from the body without the gate
		for _, ins := range b.Instrs {
			if r, ok := ins.(*ssa.Return); ok && !isRejectReturn(fn, r) {
				if lp.exempt != nil && lp.exempt(r) {
					continue
				}
				c.Fail("loopgate", key, desc, "the loop can be left to a non-reject return at "+instrPos(c.W, r)+" without passing the gate", sites...)
				return false
			}
		}
	}
	c.OK("loopgate", key, desc, sites...)
	return true
}

// Loop describes a natural loop found by its range operand or header comment.
type Loop struct {
	Name   string
	Header *ssa.BasicBlock
	Body   *ssa.BasicBlock
	Blocks map[int]bool
	exempt func(*ssa.Return) bool
}

// RangeLoop finds the `for ... range X` loop in fn whose ranged operand matches over.
// For slices the SSA shape is: header has phi #rangeindex, t = idx < len(X).
// For maps/strings/channels: header has next(range X).
func (c *Check) RangeLoop(fn *ssa.Function, name string, over VM) *Loop {
	if fn == nil {
		return nil
	}
	var found, foundFor []*Loop
	for _, b := range fn.Blocks {
		if len(b.Instrs) == 0 {
			continue
		}
		iff, ok := b.Instrs[len(b.Instrs)-1].(*ssa.If)
		if !ok {
			continue
		}
		match := false
		switch {
		case strings.HasPrefix(b.Comment, "rangeindex.loop"):
			if bo, ok := iff.Cond.(*ssa.BinOp); ok {
				if Len(over)(bo.Y) {
					match = true
				}
				// arrays / len hoisted as constant are not used in this repo
			}
		case strings.HasPrefix(b.Comment, "for.loop"):
			// `for i := 0; i < len(X); i++` over the same operand is the same scan
			if bo, ok := iff.Cond.(*ssa.BinOp); ok && bo.Op == token.LSS {
				if _, isPhi := bo.X.(*ssa.Phi); isPhi && Len(over)(bo.Y) {
					match = true
				}
			}
		case strings.HasPrefix(b.Comment, "rangeiter.loop"):
			// cond = extract(next(range X), 0)
			if ex, ok := iff.Cond.(*ssa.Extract); ok {
				if nx, ok := ex.Tuple.(*ssa.Next); ok {
					if rg, ok := nx.Iter.(*ssa.Range); ok && over(rg.X) {
						match = true
					}
				}
			}
		}
		if match {
			lp := &Loop{Name: name, Header: b, Body: b.Succs[0]}
			lp.Blocks = naturalLoop(fn, b)
			if strings.HasPrefix(b.Comment, "for.loop") {
				foundFor = append(foundFor, lp)
			} else {
				found = append(found, lp)
			}
		}
	}
	if len(found) == 0 {
		found = foundFor // an index loop over the same operand stands in for the range loop
	}
	if strings.Contains(name, "#") {
		// "name#k/n": k-th of exactly n loops over the operand, in block order
		var k, n int
		fmt.Sscanf(name[strings.Index(name, "#"):], "#%d/%d", &k, &n)
		if len(found) == n && k >= 1 && k <= n {
			found[k-1].Name = name
			c.loopVisitsAll(fn, found[k-1])
			return found[k-1]
		}
		c.Undecided("anchor", shortName(fn)+"|loop:"+name, fmt.Sprintf("exactly %d range loops over the named operand", n), fmt.Sprintf("found %d", len(found)), c.W.Pos(fn.Pos()))
		return nil
	}
	if len(found) != 1 {
		c.Undecided("anchor", shortName(fn)+"|loop:"+name, "exactly one range loop over the named operand", fmt.Sprintf("found %d", len(found)), c.W.Pos(fn.Pos()))
		return nil
	}
	c.loopVisitsAll(fn, found[0])
	return found[0]
}

// ForLoop finds a `for` loop by ordinal among for.loop headers whose condition matches.
func (c *Check) ForLoop(fn *ssa.Function, name string, cond VM) *Loop {
	if fn == nil {
		return nil
	}
	var found []*Loop
	for _, b := range fn.Blocks {
		if !strings.HasPrefix(b.Comment, "for.loop") || len(b.Instrs) == 0 {
			continue
		}
		iff, ok := b.Instrs[len(b.Instrs)-1].(*ssa.If)
		if !ok || !cond(iff.Cond) {
			continue
		}
		lp := &Loop{Name: name, Header: b, Body: b.Succs[0]}
		lp.Blocks = naturalLoop(fn, b)
		found = append(found, lp)
	}
	if len(found) != 1 {
		c.Undecided("anchor", shortName(fn)+"|loop:"+name, "exactly one for loop with the named condition", fmt.Sprintf("found %d", len(found)), c.W.Pos(fn.Pos()))
		return nil
	}
	c.loopVisitsAll(fn, found[0])
	return found[0]
}

// naturalLoop: blocks dominated by hdr that can reach hdr.
func naturalLoop(fn *ssa.Function, hdr *ssa.BasicBlock) map[int]bool {
	in := map[int]bool{hdr.Index: true}
	// reverse reachability from hdr's back-edge predecessors, restricted to blocks dominated by hdr
	var work []*ssa.BasicBlock
	for _, p := range hdr.Preds {
		if hdr.Dominates(p) {
			work = append(work, p)
		}
	}
	for len(work) > 0 {
		b := work[len(work)-1]
		work = work[:len(work)-1]
		if in[b.Index] {
			continue
		}
		in[b.Index] = true
		for _, p := range b.Preds {
			if hdr.Dominates(p) {
				work = append(work, p)
			}
		}
	}
	return in
}

// Accumulator: the loop-carried variable `varName` of loop lp is updated on every
// completed iteration by exactly step(phi): the header phi has one entry edge and all
// back-edge values match step applied to the phi itself.
func (c *Check) Accumulator(fn *ssa.Function, lp *Loop, varName string, step func(self VM) VM, what string) bool {
	if fn == nil || lp == nil {
		return false
	}
	key := shortName(fn) + "|loop:" + lp.Name + "|acc:" + varName
	desc := fmt.Sprintf("every completed iteration of loop %s performs %s (no iteration skips the accumulation)", lp.Name, what)
	var phi *ssa.Phi
	for _, ins := range lp.Header.Instrs {
		if p, ok := ins.(*ssa.Phi); ok && phiIs(p, varName) {
			phi = p
		}
	}
	c.Sites += len(lp.Blocks)
	if phi == nil {
		c.Fail("accumulator", key, desc, "no loop-carried variable "+varName+" in loop header", c.W.Pos(fn.Pos()))
		return false
	}
	self := func(v ssa.Value) bool { return v == ssa.Value(phi) }
	m := step(self)
	back := 0
	for i, e := range phi.Edges {
		pred := lp.Header.Preds[i]
		if !lp.Header.Dominates(pred) {
			continue // entry edge
		}
		back++
		if !m(e) {
			c.Fail("accumulator", key, desc, fmt.Sprintf("a back edge (from block %d) carries %s, which is not the required update: some iteration completes without the accumulation", pred.Index, e.String()), c.W.Pos(phi.Pos()))
			return false
		}
	}
	if back == 0 {
		c.Fail("accumulator", key, desc, "no back edge", c.W.Pos(phi.Pos()))
		return false
	}
	c.OK("accumulator", key, desc, c.W.Pos(phi.Pos()))
	return true
}

func Is(x ssa.Value) VM { return func(v ssa.Value) bool { return v == x } }

// dominatedByBranch: block b is dominated by the given outcome (true/false) of an If
// whose condition matches m.
func dominatedByBranch(fn *ssa.Function, b *ssa.BasicBlock, m VM, outcome bool) bool {
	for _, i := range findIfs(fn, m) {
		s := i.Block().Succs[0]
		if !outcome {
			s = i.Block().Succs[1]
		}
		if len(s.Preds) == 1 && s.Dominates(b) {
			return true
		}
	}
	return false
}

func callInstrs(cs []ssa.CallInstruction) []ssa.Instruction {
	out := make([]ssa.Instruction, len(cs))
	for i, x := range cs {
		out[i] = x
	}
	return out
}

func valueInstrs(vs []ssa.Value) []ssa.Instruction {
	var out []ssa.Instruction
	for _, v := range vs {
		if i, ok := v.(ssa.Instruction); ok {
			out = append(out, i)
		}
	}
	return out
}

// lookupOf matches a map lookup m[k] (non comma-ok) on a map matching m.
func lookupOf(m VM) VM {
	return func(v ssa.Value) bool {
		l, ok := v.(*ssa.Lookup)
		return ok && m(l.X)
	}
}

func isMakeMapNamed(v ssa.Value) bool {
	_, ok := v.(*ssa.MakeMap)
	return ok
}

func itoa(n int) string { return fmt.Sprint(n) }

// LoopEffect: every completed iteration of the loop executes an instruction matching
// pred (the blocks holding such instructions cut every body->header path).
func (c *Check) LoopEffect(fn *ssa.Function, lp *Loop, pred func(ssa.Instruction) bool, name, what string) bool {
	if fn == nil || lp == nil {
		return false
	}
	key := shortName(fn) + "|loop:" + lp.Name + "|effect:" + name
	desc := fmt.Sprintf("every completed iteration of loop %s executes %s (%s)", lp.Name, name, what)
	blocked := map[int]bool{}
	var sites []string
	for bi := range lp.Blocks {
		for _, ins := range fn.Blocks[bi].Instrs {
			if pred(ins) {
				blocked[bi] = true
				sites = append(sites, instrPos(c.W, ins))
			}
		}
	}
	if len(blocked) == 0 {
		c.Fail("loopeffect", key, desc, "effect not found in loop", c.W.Pos(fn.Pos()))
		return false
	}
	// remove outgoing edges of blocks containing the effect
	cut := map[Edge]bool{}
	for bi := range blocked {
		for _, s := range fn.Blocks[bi].Succs {
			cut[Edge{bi, s.Index}] = true
		}
	}
	if blocked[lp.Body.Index] {
		c.OK("loopeffect", key, desc, sites...)
		return true
	}
	seen := reachable(fn, lp.Body, cut)
	if seen[lp.Header.Index] {
		c.Fail("loopeffect", key, desc, "an iteration can complete without the effect; path: "+describePath(c.W, fn, lp.Body, cut, lp.Header), sites...)
		return false
	}
	c.OK("loopeffect", key, desc, sites...)
	return true
}

// ForOrRangeLoopWithCall finds the unique loop whose body contains a call to callee.
func (c *Check) ForOrRangeLoopWithCall(fn *ssa.Function, name, callee string) *Loop {
	if fn == nil {
		return nil
	}
	var found []*Loop
	for _, b := range fn.Blocks {
		if len(b.Instrs) == 0 {
			continue
		}
		rotated := strings.HasPrefix(b.Comment, "rangeint.body") // `for i := range n`: the body block carries the phis
		if !strings.Contains(b.Comment, ".loop") && !rotated {
			continue
		}
		if _, ok := b.Instrs[len(b.Instrs)-1].(*ssa.If); !ok && !rotated {
			continue
		}
		blocks := naturalLoop(fn, b)
		if rotated {
			if len(blocks) < 1 {
				continue
			}
			has := false
			for bi := range blocks {
				for _, ins := range fn.Blocks[bi].Instrs {
					if ci, ok := ins.(ssa.CallInstruction); ok && nameMatch(calleeName(ci.Common()), callee) {
						has = true
					}
				}
			}
			if has {
				found = append(found, &Loop{Name: name, Header: b, Body: b, Blocks: blocks})
			}
			continue
		}
		has := false
		for bi := range blocks {
			for _, ins := range fn.Blocks[bi].Instrs {
				if ci, ok := ins.(ssa.CallInstruction); ok && nameMatch(calleeName(ci.Common()), callee) {
					has = true
				}
			}
		}
		if has {
			found = append(found, &Loop{Name: name, Header: b, Body: b.Succs[0], Blocks: blocks})
		}
	}
	// innermost: smallest block set
	if len(found) == 0 {
		c.Undecided("anchor", shortName(fn)+"|loop:"+name, "a loop containing a call to "+callee, "found none", c.W.Pos(fn.Pos()))
		return nil
	}
	best := found[0]
	for _, l := range found[1:] {
		if len(l.Blocks) < len(best.Blocks) {
			best = l
		}
	}
	c.loopVisitsAll(fn, best)
	return best
}

// WhoCalls: the set of module functions containing a static call (or closure/defer/go)
// to target must be a subset of allowed; at least one caller must exist.
func (c *Check) WhoCalls(target string, allowed []string, why string) bool {
	al := map[string]bool{}
	for _, a := range allowed {
		al[a] = true
	}
	var bad, sites []string
	n := 0
	for _, fn := range c.W.ModuleFuncs() {
		for _, ci := range findCalls(fn, target) {
			n++
			sites = append(sites, instrPos(c.W, ci))
			if !al[shortName(fn)] {
				bad = append(bad, shortName(fn)+" at "+instrPos(c.W, ci))
			}
		}
		// function value references (method values / passing as callback)
		eachInstr(fn, func(b *ssa.BasicBlock, ins ssa.Instruction) {
			for _, op := range ins.Operands(nil) {
				if f, ok := (*op).(*ssa.Function); ok && shortName(f) == target {
					if ci, isCall := ins.(ssa.CallInstruction); isCall && ci.Common().Value == *op {
						return
					}
					n++
					if !al[shortName(fn)] {
						bad = append(bad, shortName(fn)+" takes the function value at "+instrPos(c.W, ins))
					}
				}
			}
		})
	}
	c.Sites += len(c.W.ModuleFuncs())
	key := target
	desc := "callers of " + target + " are within {" + strings.Join(allowed, ", ") + "}: " + why
	if c.W.Fn(target) == nil && !strings.HasPrefix(target, "iface:") {
		c.Undecided("whocalls", key, desc, "target function not found")
		return false
	}
	if n == 0 {
		c.Fail("whocalls", key, desc, "no caller found at all (rule would be vacuous)")
		return false
	}
	if len(bad) > 0 {
		c.Fail("whocalls", key, desc, "unexpected callers: "+strings.Join(bad, "; "), sites...)
		return false
	}
	c.OK("whocalls", key, desc, sites...)
	return true
}

// LoopEffectBefore: within loop lp, every path from the body entry to any target
// instruction executes an instruction matching pred first.
func (c *Check) LoopEffectBefore(fn *ssa.Function, lp *Loop, targets []ssa.Instruction, pred func(ssa.Instruction) bool, name, what string) bool {
	if fn == nil || lp == nil {
		return false
	}
	key := shortName(fn) + "|loop:" + lp.Name + "|before:" + name
	desc := fmt.Sprintf("in loop %s, %s is executed before the protected effect on every path (%s)", lp.Name, name, what)
	cut := map[Edge]bool{}
	var sites []string
	blocked := map[int]bool{}
	for bi := range lp.Blocks {
		for _, ins := range fn.Blocks[bi].Instrs {
			if pred(ins) {
				blocked[bi] = true
				sites = append(sites, instrPos(c.W, ins))
			}
		}
	}
	if len(blocked) == 0 || len(targets) == 0 {
		c.Fail("loopbefore", key, desc, "effect or target not found", c.W.Pos(fn.Pos()))
		return false
	}
	for bi := range blocked {
		for _, s := range fn.Blocks[bi].Succs {
			cut[Edge{bi, s.Index}] = true
		}
	}
	seen := reachable(fn, lp.Body, cut)
	for _, t := range targets {
		tb := t.Block().Index
		if blocked[tb] {
			// same block: effect must precede target
			ei, ti := -1, instrIndex(t)
			for i, ins := range t.Block().Instrs {
				if pred(ins) && ei < 0 {
					ei = i
				}
			}
			if ei >= 0 && ei < ti {
				continue
			}
		}
		if seen[tb] && !(blocked[tb]) {
			c.Fail("loopbefore", key, desc, "target at "+instrPos(c.W, t)+" reachable without the effect: "+describePath(c.W, fn, lp.Body, cut, t.Block()), sites...)
			return false
		}
		if blocked[tb] && lp.Body.Index != tb && !seen[tb] {
			continue
		}
	}
	c.OK("loopbefore", key, desc, sites...)
	return true
}
