package main

import (
	"go/token"
	"strings"

	"golang.org/x/tools/go/ssa"
)

func init() { register("C27", propC27) }

func propC27(c *Check) {
	c.Explain = "Decides the guard structure of the durable membership history: (1) NODESTATEQUEUE keys are written only by writeNodePledge/Accept/Cancel/Remove, which are called only from writeUTXO on the matching output type, each writing its own state constant under nodeStateQueueKey(signer, timestamp); (2) pledge: every latest node state is in {ACCEPTED, REMOVED, CANCELLED} and no node has the same signer key or transaction (per-iteration gates), before the write; (3) accept/cancel: the last record is PLEDGING with equal signer and payee keys (genesis flag is the only exemption, for accept); (4) remove: the last record is not PLEDGING, the target is found by signer key, payee equal and state ACCEPTED; (4b) each writer reads the history up to its own timestamp plus the accept (pledge) period, so already-durable later records are part of what the guards see; (5) readAllNodes keeps the latest record per signer (map overwrite while ranging in key order, order assertion panics) and skips records after the threshold; (6) validation mirrors: validateNodePledge gates on non-pending states and unused signer key; validateNodeAccept/Cancel accept only with exactly one pledging node whose pledge transaction is the spent input."
	c.NotCov = "sequences of operations (only each transition's guard is decided); the timestamp arithmetic of the lookup offset."
	c.Floor(30)
	w := c.W
	e := w.Effects()
	writers := []string{"storage.writeNodePledge", "storage.writeNodeAccept", "storage.writeNodeCancel", "storage.writeNodeRemove"}
	c.WhoWrites(e, "graphPrefixNodeStateQueue", []string{"set", "delete"}, writers, "membership history has four writers")
	stateOf := map[string]string{"storage.writeNodePledge": "NodeStatePledging", "storage.writeNodeAccept": "NodeStateAccepted", "storage.writeNodeCancel": "NodeStateCancelled", "storage.writeNodeRemove": "NodeStateRemoved"}
	typeOf := map[string]string{"storage.writeNodePledge": "OutputTypeNodePledge", "storage.writeNodeAccept": "OutputTypeNodeAccept", "storage.writeNodeCancel": "OutputTypeNodeCancel", "storage.writeNodeRemove": "OutputTypeNodeRemove"}
	wu := c.F("storage.writeUTXO")
	for _, n := range writers {
		c.WhoCalls(n, []string{"storage.writeUTXO"}, "transitions are applied only when the matching output is finalised")
		f := c.F(n)
		if f == nil {
			continue
		}
		sets := findCalls(f, txnSet)
		ok := len(sets) == 1
		if ok {
			a := sets[0].Common().Args
			ok = Call("storage.nodeStateQueueKey", Param("signer"), Param("timestamp"))(a[1]) &&
				Call("storage.nodeEntryValue", Param("payee"), Param("tx"), w.ConstNamed("common", stateOf[n]))(a[2])
		}
		c.Require(ok, "provenance", n+"|record", "the record written is NODESTATEQUEUE(timestamp, signer) -> (payee, tx, "+stateOf[n]+")", "record operands changed")
		if wu != nil {
			cs := findCalls(wu, n)
			okd := len(cs) == 1 && domBy(wu, cs[0], BinEither(token.EQL, Path(Param("utxo"), "Type"), w.ConstNamed("common", typeOf[n])), true)
			c.Require(okd, "dispatch", "storage.writeUTXO|"+n, n+" is applied exactly for outputs of type "+typeOf[n], "dispatch changed")
		}
	}
	// the history is read up to timestamp + the accept period: records already durable with a later
	// timestamp are seen, so an operation carrying an older timestamp cannot slip under them
	aheadA := BinEither(token.ADD, Param("timestamp"), Conv(w.ConstNamed("config", "KernelNodeAcceptPeriodMinimum")))
	nodesT := Call("storage.readAllNodes", Param("txn"), aheadA, ConstBool(true))
	last := LastOf(nodesT)
	stEq := func(base VM, path, cn string) VM {
		return BinEither(token.EQL, PathFrom(base, path), w.ConstNamed("common", cn))
	}
	stNe := func(base VM, path, cn string) VM {
		return BinEither(token.NEQ, PathFrom(base, path), w.ConstNamed("common", cn))
	}

	// accept / cancel
	for _, n := range []string{"storage.writeNodeAccept", "storage.writeNodeCancel"} {
		f := c.F(n)
		if f == nil {
			continue
		}
		sets := callInstrs(findCalls(f, txnSet))
		checks := []Gate{
			{Name: "last.State != PLEDGING => reject", RejectOnTrue: true, Cond: stNe(last, "State", "NodeStatePledging")},
			{Name: "last.Signer.PublicSpendKey != signer => reject", RejectOnTrue: true, Cond: BinEither(token.NEQ, PathFrom(last, "Signer.PublicSpendKey"), Param("signer"))},
			{Name: "last.Payee.PublicSpendKey != payee => reject", RejectOnTrue: true, Cond: BinEither(token.NEQ, PathFrom(last, "Payee.PublicSpendKey"), Param("payee"))},
		}
		for _, g := range checks {
			gs := []Gate{g}
			if n == "storage.writeNodeAccept" {
				gs = append(gs, Gate{Name: "genesis", RejectOnTrue: false, Cond: Param("genesis")})
			}
			c.MustPassAny(f, nil, g.Name, gs, sets, "recording the transition")
		}
	}
	// remove
	if f := c.F("storage.writeNodeRemove"); f != nil {
		sets := callInstrs(findCalls(f, txnSet))
		c.MustPassAny(f, nil, "last.State in {ACCEPTED, REMOVED, CANCELLED}", []Gate{
			{Name: "last.State == ACCEPTED", Cond: stEq(last, "State", "NodeStateAccepted")},
			{Name: "last.State == REMOVED", Cond: stEq(last, "State", "NodeStateRemoved")},
			{Name: "last.State == CANCELLED", Cond: stEq(last, "State", "NodeStateCancelled")},
		}, sets, "recording a removal (no pledge in progress)")
		node := PhiNamed("node")
		c.MustPass(f, Gate{Name: "node == nil => reject", RejectOnTrue: true, Cond: BinEither(token.EQL, node, ConstNil)}, sets, "recording a removal")
		c.MustPass(f, Gate{Name: "node.Payee.PublicSpendKey != payee => reject", RejectOnTrue: true, Cond: BinEither(token.NEQ, PathFrom(node, "Payee.PublicSpendKey"), Param("payee"))}, sets, "recording a removal")
		c.MustPass(f, Gate{Name: "node.State != ACCEPTED => reject", RejectOnTrue: true, Cond: stNe(node, "State", "NodeStateAccepted")}, sets, "recording a removal")
		// node is selected by signer key
		okn := false
		for _, v := range findValues(f, node) {
			ph := v.(*ssa.Phi)
			for i, ed := range ph.Edges {
				if ConstNil(ed) || ed == ssa.Value(ph) || node(ed) {
					continue
				}
				pred := ph.Block().Preds[i]
				if PathFrom(nodesT, "[]")(ed) && dominatedByBranch(f, pred, BinEither(token.EQL, PathFrom(nodesT, "[].Signer.PublicSpendKey"), Param("signer")), true) {
					okn = true
				} else {
					okn = false
				}
			}
		}
		c.Require(okn, "provenance", shortName(f)+"|target by signer", "the node removed is the one whose signer key equals the transaction's signer", "target selection changed")
	}
	// pledge
	if f := c.F("storage.writeNodePledge"); f != nil {
		aheadP := BinEither(token.ADD, Param("timestamp"), Conv(w.ConstNamed("config", "KernelNodePledgePeriodMinimum")))
		nodesL := Call("storage.readAllNodes", Param("txn"), aheadP, ConstBool(false))
		l1 := c.RangeLoop(f, "state scan#1/2", nodesL)
		l2 := c.RangeLoop(f, "identity scan#2/2", nodesL)
		c.LoopGateAny(f, l1, "n.State in {ACCEPTED, REMOVED, CANCELLED}", []Gate{
			{Name: "n.State == ACCEPTED", Cond: stEq(nodesL, "[].State", "NodeStateAccepted")},
			{Name: "n.State == REMOVED", Cond: stEq(nodesL, "[].State", "NodeStateRemoved")},
			{Name: "n.State == CANCELLED", Cond: stEq(nodesL, "[].State", "NodeStateCancelled")},
		}, "no other node is pledging")
		c.LoopGate(f, l2, Gate{Name: "n.Signer.PublicSpendKey == signer => reject", RejectOnTrue: true, Cond: BinEither(token.EQL, PathFrom(nodesL, "[].Signer.PublicSpendKey"), Param("signer"))}, "signer keys never repeat across nodes")
		c.LoopGate(f, l2, Gate{Name: "n.Transaction == tx => reject", RejectOnTrue: true, Cond: BinEither(token.EQL, PathFrom(nodesL, "[].Transaction"), Param("tx"))}, "a pledge transaction is recorded once")
		sets := findCalls(f, txnSet)
		ok := len(sets) == 1 && l1 != nil && l2 != nil && l1.Header.Dominates(sets[0].Block()) && l2.Header.Dominates(sets[0].Block()) && !l1.Blocks[sets[0].Block().Index] && !l2.Blocks[sets[0].Block().Index]
		c.Require(ok, "order", shortName(f)+"|write after scans", "the pledge is recorded only after both scans completed", "write no longer follows the scans")
	}
	// readAllNodes
	if f := c.F("storage.readAllNodes"); f != nil {
		nodes := Local("nodes")
		lp := c.RangeLoop(f, "latest per signer", nodes)
		c.LoopEffect(f, lp, func(ins ssa.Instruction) bool {
			mu, ok := ins.(*ssa.MapUpdate)
			return ok && Call("(common.Address).Hash", PathFrom(nodes, "[].Signer"))(mu.Key) && PathFrom(nodes, "[]")(mu.Value)
		}, "filter[n.Signer.Hash()] = n", "later records overwrite earlier ones per signer")
		ords := findIfs(f, Bin(token.LSS, PathFrom(nodes, "[].Timestamp"), PathFrom(nodes, "[].Timestamp")))
		okp := len(ords) == 1
		if okp {
			pb := ords[0].Block().Succs[0]
			_, isPanic := pb.Instrs[len(pb.Instrs)-1].(*ssa.Panic)
			okp = isPanic
		}
		c.Require(okp, "shape", shortName(f)+"|order assertion", "records out of timestamp order panic (so 'latest' is well defined)", "order assertion missing")
		scan := c.ForOrRangeLoopWithCall(f, "key scan", "(*github.com/dgraph-io/badger/v4.Iterator).Next")
		var appends []ssa.Instruction
		if scan != nil {
			for bi := range scan.Blocks {
				for _, ins := range f.Blocks[bi].Instrs {
					if cl, ok := ins.(*ssa.Call); ok && calleeName(&cl.Call) == "builtin:append" {
						appends = append(appends, ins)
					}
				}
			}
		}
		ts := Extract(1, Call("storage.nodeSignerFromStateKey"))
		c.MustPass(f, Gate{Name: "ts > threshold => skip", RejectOnTrue: true, Cond: Bin(token.GTR, ts, Param("threshold"))}, appends, "including a record (only records up to the threshold)")
	}
	// validation mirrors
	if f := c.F("(*common.Transaction).validateNodePledge"); f != nil {
		nodes := Call("iface:common.DataStore.ReadAllNodes", Param("store"), Param("snapTime"), ConstBool(false))
		lp := c.RangeLoop(f, "nodes", nodes)
		c.LoopGateAny(f, lp, "n.State in {ACCEPTED, CANCELLED, REMOVED}", []Gate{
			{Name: "n.State != ACCEPTED false", RejectOnTrue: true, Cond: stNe(nodes, "[].State", "NodeStateAccepted")},
			{Name: "n.State != CANCELLED false", RejectOnTrue: true, Cond: stNe(nodes, "[].State", "NodeStateCancelled")},
			{Name: "n.State != REMOVED false", RejectOnTrue: true, Cond: stNe(nodes, "[].State", "NodeStateRemoved")},
		}, "a pledge validates only while no node is pending")
		c.LoopGate(f, lp, Gate{Name: "n.Signer key == new signer => reject", RejectOnTrue: true,
			Cond: Bin(token.EQL, Call("(crypto.Key).String", PathFrom(nodes, "[].Signer.PublicSpendKey")), Call("(crypto.Key).String"))}, "signer keys never repeat")
	}
	for _, n := range []string{"(*common.Transaction).validateNodeAccept", "(*common.Transaction).validateNodeCancel"} {
		f := c.F(n)
		if f == nil {
			continue
		}
		pl := PhiNamed("pledging")
		rets := acceptReturns(f)
		c.MustPass(f, Gate{Name: "pledging == nil => reject", RejectOnTrue: true, Cond: BinEither(token.EQL, pl, ConstNil)}, rets, "any accept")
		c.MustPass(f, Gate{Name: "pledging.Transaction != tx.Inputs[0].Hash => reject", RejectOnTrue: true,
			Cond: BinEither(token.NEQ, PathFrom(pl, "Transaction"), Path(Param("tx"), "Inputs.[].Hash"))}, rets, "any accept")
		nodes := Call("iface:common.DataStore.ReadAllNodes", Param("store"), Param("snapTime"), ConstBool(false))
		lp := c.RangeLoop(f, "nodes", nodes)
		// a second pending node rejects: the only way to complete an iteration with a non-terminal state is state==PLEDGING && pledging==nil
		c.LoopGateAny(f, lp, "terminal state | first pledging node", []Gate{
			{Name: "n.State == ACCEPTED", Cond: stEq(nodes, "[].State", "NodeStateAccepted")},
			{Name: "n.State == CANCELLED", Cond: stEq(nodes, "[].State", "NodeStateCancelled")},
			{Name: "n.State == REMOVED", Cond: stEq(nodes, "[].State", "NodeStateRemoved")},
			{Name: "pledging == nil", Cond: BinEither(token.EQL, pl, ConstNil)},
		}, "at most one pledging node")
	}
	_ = strings.Join
}
