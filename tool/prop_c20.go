package main

import (
	"go/token"
	"strings"

	"golang.org/x/tools/go/ssa"
)

func init() { register("C20", propC20) }

// storesToField lists (function, store) pairs that assign struct field structName.field
// or update a map held in that field.
func mapUpdatesOfField(w *World, field string) map[string][]ssa.Instruction {
	out := map[string][]ssa.Instruction{}
	for _, fn := range w.ModuleFuncs() {
		eachInstr(fn, func(b *ssa.BasicBlock, ins ssa.Instruction) {
			if mu, ok := ins.(*ssa.MapUpdate); ok {
				_, p := accessPath(mu.Map)
				if len(p) > 0 && p[len(p)-1] == field {
					out[shortName(fn)] = append(out[shortName(fn)], ins)
				}
			}
		})
	}
	return out
}

func propC20(c *Check) {
	c.Explain = "Decides the single-step guards of round transitions: (1) validateNewRound accepts only past references.Self == final.Hash (final = the previous round's computed final), and, unless on the finalized dummy path, past a non-nil external round and a successful updateExternal; (2) updateExternal rejects a reference to the own chain and a link lower than the recorded one, asserts the stored link equals the in-memory link, and its only mutation of RoundLinks is the last action before 'return nil' (no rejecting return is reachable after it), so a rejected transition leaves the link table unchanged; RoundLinks is mutated nowhere else except the chain-state loader; (3) startNewRoundAndPersist reaches StartNewRound only through validateNewRound's success edges and the new cache round has Number = final.Number + 1 and that number is what is persisted; (4) durable side: LINK keys are written only by writeLink and ROUND keys only by writeRound, reached only from startNewRound, UpdateEmptyHeadRound and the genesis loader, each within a single write transaction; startNewRound stores link(node -> external.NodeId) = external.Number and the closed round under references.Self; (5) updateEmptyHeadRoundAndPersist mutates the cache references only after its gates and a successful updateExternal."
	c.NotCov = "monotonicity over whole histories beyond the single-step gate; that the external round is final (store contents)."
	c.Floor(20)
	w := c.W
	e := w.Effects()

	if f := c.F("(*kernel.Chain).validateNewRound"); f != nil {
		final := Call("(*kernel.CacheRound).asFinal", Param("cache"))
		ext := Extract(0, Call("iface:storage.Store.ReadRound", nil, Path(Param("references"), "External")))
		var dummy, normal []ssa.Instruction
		for _, r := range acceptReturns(f) {
			rr := r.(*ssa.Return)
			if ConstNil(retValue(rr, 0)) {
				continue // (nil, false, err) forms are rejects; (nil,false,nil) does not exist here
			}
			if ConstBool(true)(retValue(rr, 1)) {
				dummy = append(dummy, r)
			} else {
				normal = append(normal, r)
			}
		}
		c.Require(len(dummy) == 1 && len(normal) == 1, "shape", shortName(f)+"|accept forms", "validateNewRound has exactly two accepting forms: the finalized dummy-external accept and the normal accept", "found dummy="+itoa(len(dummy))+" normal="+itoa(len(normal)))
		all := append(append([]ssa.Instruction{}, dummy...), normal...)
		c.MustPass(f, Gate{Name: "references.Self != final.Hash => reject", RejectOnTrue: true, Cond: BinEither(token.NEQ, Path(Param("references"), "Self"), PathFrom(final, "Hash"))}, all, "any accept (the new round commits to the previous final round)")
		c.MustPass(f, Gate{Name: "final == nil => reject", RejectOnTrue: true, Cond: BinEither(token.EQL, final, ConstNil)}, all, "any accept")
		c.MustPass(f, Gate{Name: "finalized true", RejectOnTrue: false, Cond: Param("finalized")}, dummy, "the dummy-external accept")
		c.MustPass(f, Gate{Name: "external == nil (dummy)", RejectOnTrue: false, Cond: BinEither(token.EQL, ext, ConstNil)}, dummy, "the dummy-external accept")
		c.MustPass(f, Gate{Name: "external == nil => reject", RejectOnTrue: true, Cond: BinEither(token.EQL, ext, ConstNil)}, normal, "the normal accept (external names a known round)")
		c.MustPass(f, Gate{Name: "updateExternal(final, external, ...) != nil => reject", RejectOnTrue: true, Cond: BinEither(token.NEQ, Call("(*kernel.Chain).updateExternal", Param("chain"), final, ext), ConstNil)}, normal, "the normal accept")
		c.MustPass(f, Gate{Name: "external.Hash != references.External => panic", RejectOnTrue: true, Cond: BinEither(token.NEQ, PathFrom(ext, "Hash"), Path(Param("references"), "External"))}, normal, "the normal accept")
		for _, r := range all {
			c.Require(final(retValue(r.(*ssa.Return), 0)), "provenance", shortName(f)+"|returns final", "the accepted final round is cache.asFinal()", "another round is returned", instrPos(w, r))
		}
	}
	if f := c.F("(*kernel.Chain).updateExternal"); f != nil {
		mus := mapUpdatesOfField(w, "RoundLinks")
		var mine []ssa.Instruction
		mine = mus[shortName(f)]
		var who []string
		for k := range mus {
			who = append(who, k)
		}
		c.Sites += len(w.ModuleFuncs())
		c.Require(sameSet(who, []string{"(*kernel.Chain).updateExternal", "(*kernel.Chain).loadState"}), "whowrites", "kernel.ChainState.RoundLinks", "RoundLinks is updated only by updateExternal and the start-up loader loadState", "writers: "+strings.Join(who, ", "))
		links := PathFrom(Param("chain"), "State.RoundLinks")
		look := func(v ssa.Value) bool {
			l, ok := v.(*ssa.Lookup)
			return ok && links(l.X) && Path(Param("external"), "NodeId")(l.Index)
		}
		c.MustPass(f, Gate{Name: "final.NodeId == external.NodeId => reject", RejectOnTrue: true, Cond: BinEither(token.EQL, Path(Param("final"), "NodeId"), Path(Param("external"), "NodeId"))}, append(mine, acceptReturns(f)...), "advancing the link / accepting (never to the own chain)")
		c.MustPass(f, Gate{Name: "external.Number < RoundLinks[external.NodeId] => reject", RejectOnTrue: true, Cond: Bin(token.LSS, Path(Param("external"), "Number"), look)}, append(mine, acceptReturns(f)...), "advancing the link / accepting (never backwards)")
		c.MustPass(f, Gate{Name: "stored link != RoundLinks[...] => panic", RejectOnTrue: true, Cond: BinEither(token.NEQ, Extract(0, Call("iface:storage.Store.ReadLink", nil, Path(Param("final"), "NodeId"), Path(Param("external"), "NodeId"))), look)}, mine, "advancing the link")
		ok := len(mine) == 1
		if ok {
			mu := mine[0].(*ssa.MapUpdate)
			ok = Path(Param("external"), "NodeId")(mu.Key) && Path(Param("external"), "Number")(mu.Value)
			// after the update only accepting exits are reachable
			for bi := range reachable(f, mu.Block(), nil) {
				b := f.Blocks[bi]
				if r, isRet := b.Instrs[len(b.Instrs)-1].(*ssa.Return); isRet && isRejectReturn(f, r) {
					ok = false
				}
			}
		}
		c.Require(ok, "order", shortName(f)+"|mutation last", "RoundLinks[external.NodeId] = external.Number is the only mutation and no rejecting return is reachable after it", "a reject can follow the mutation, or the mutation changed")
	}
	if f := c.F("(*kernel.Chain).startNewRoundAndPersist"); f != nil {
		vn := Call("(*kernel.Chain).validateNewRound", Param("chain"), Param("cache"), Param("references"))
		final := Extract(0, vn)
		starts := callInstrs(findCalls(f, "iface:storage.Store.StartNewRound"))
		c.MustPass(f, Gate{Name: "validateNewRound err != nil => reject", RejectOnTrue: true, Cond: BinEither(token.NEQ, Extract(2, vn), ConstNil)}, starts, "persisting a new round")
		c.MustPass(f, Gate{Name: "final == nil => no transition", RejectOnTrue: true, Cond: BinEither(token.EQL, final, ConstNil)}, starts, "persisting a new round")
		okn := false
		var cell ssa.Value
		eachInstr(f, func(b *ssa.BasicBlock, ins ssa.Instruction) {
			if st, ok := ins.(*ssa.Store); ok {
				if fa, ok := st.Addr.(*ssa.FieldAddr); ok && fieldIs(fa.X.Type(), fa.Field, "kernel.CacheRound", "Number") {
					if Bin(token.ADD, PathFrom(final, "Number"), ConstInt(1))(st.Val) {
						okn = true
						cell = fa.X
					}
				}
			}
		})
		c.Require(okn, "shape", shortName(f)+"|Number = final.Number + 1", "the new cache round's number is exactly one higher than the closed round", "number expression changed")
		okp := len(starts) == 1 && cell != nil
		if okp {
			a := starts[0].(ssa.CallInstruction).Common().Args
			r1, p1 := accessPath(a[1])
			okp = r1 == cell && strings.Join(p1, ".") == "Number"
			r2, p2 := accessPath(a[2])
			okp = okp && r2 == cell && strings.Join(p2, ".") == "References"
		}
		c.Require(okp, "provenance", shortName(f)+"|persisted = new cache", "StartNewRound persists the new cache round's own number and references", "persisted operands differ from the new cache round")
	}
	if f := c.F("(*kernel.Chain).updateEmptyHeadRoundAndPersist"); f != nil {
		ups := callInstrs(findCalls(f, "iface:storage.Store.UpdateEmptyHeadRound"))
		var muts []ssa.Instruction
		eachInstr(f, func(b *ssa.BasicBlock, ins ssa.Instruction) {
			if st, ok := ins.(*ssa.Store); ok {
				if fa, ok := st.Addr.(*ssa.FieldAddr); ok && fieldIs(fa.X.Type(), fa.Field, "kernel.CacheRound", "References") {
					muts = append(muts, ins)
				}
			}
		})
		targets := append(append([]ssa.Instruction{}, ups...), muts...)
		c.Require(len(muts) == 1 && len(ups) == 1, "shape", shortName(f)+"|one mutation", "one assignment of cache.References and one persist call", "found "+itoa(len(muts))+"/"+itoa(len(ups)))
		c.MustPass(f, Gate{Name: "len(cache.Snapshots) != 0 => reject", RejectOnTrue: true, Cond: Bin(token.NEQ, Len(Path(Param("cache"), "Snapshots")), ConstInt(0))}, targets, "changing the head round's references")
		c.MustPass(f, Gate{Name: "references.Self != cache.References.Self => reject", RejectOnTrue: true, Cond: BinEither(token.NEQ, Path(Param("references"), "Self"), Path(Param("cache"), "References.Self"))}, targets, "changing the head round's references")
		c.MustPass(f, Gate{Name: "updateExternal(...) != nil => reject", RejectOnTrue: true, Cond: BinEither(token.NEQ, Call("(*kernel.Chain).updateExternal", Param("chain"), Param("final")), ConstNil)}, targets, "changing the head round's references")
	}
	c.WhoCalls("(*kernel.Chain).updateExternal", []string{"(*kernel.Chain).validateNewRound", "(*kernel.Chain).updateEmptyHeadRoundAndPersist"}, "links advance only as part of a validated transition")

	// durable side
	c.WhoWrites(e, "graphPrefixLink", []string{"set", "delete"}, []string{"storage.writeLink"}, "single writer of links")
	c.WhoWrites(e, "graphPrefixRound", []string{"set", "delete"}, []string{"storage.writeRound"}, "single writer of rounds")
	c.WhoCalls("storage.writeLink", []string{"storage.startNewRound", "(*storage.BadgerStore).UpdateEmptyHeadRound"}, "links are persisted only by the two round transitions")
	c.WhoCalls("storage.writeRound", []string{"storage.startNewRound", "(*storage.BadgerStore).UpdateEmptyHeadRound", "(*storage.BadgerStore).LoadGenesis"}, "rounds are persisted only by the transitions and genesis")
	for _, n := range []string{"(*storage.BadgerStore).StartNewRound", "(*storage.BadgerStore).UpdateEmptyHeadRound"} {
		if f := c.F(n); f != nil {
			c.SingleWriteTxn(e, f, "snapshotsDB")
			c.ErrorsPropagated(f, txnWriteCalls, "link and round are written together or not at all")
		}
	}
	if f := c.F("storage.startNewRound"); f != nil {
		c.ErrorsPropagated(f, txnWriteCalls, "link and rounds are written together or not at all")
		ext := Extract(0, Call("storage.readRound", Param("txn"), Path(Param("references"), "External")))
		ls := findCalls(f, "storage.writeLink")
		ok := len(ls) == 1
		if ok {
			a := ls[0].Common().Args
			ok = Param("node")(a[1]) && PathFrom(ext, "NodeId")(a[2]) && PathFrom(ext, "Number")(a[3])
		}
		c.Require(ok, "provenance", shortName(f)+"|link value", "the durable link node -> external.NodeId is set to external.Number (the stored external round)", "link operands changed")
		rs := findCalls(f, "storage.writeRound")
		okr := len(rs) == 2
		if okr {
			closed, head := rs[0].Common().Args, rs[1].Common().Args
			if !Path(Param("references"), "Self")(closed[1]) {
				closed, head = head, closed
			}
			okr = Path(Param("references"), "Self")(closed[1]) && Param("node")(head[1])
			// head round literal: Number = number param, References = references param
			hn, hr := false, false
			if al, isAlloc := head[2].(*ssa.Alloc); isAlloc {
				for _, r := range *al.Referrers() {
					if fa, ok := r.(*ssa.FieldAddr); ok {
						for _, rr := range *fa.Referrers() {
							if st, ok := rr.(*ssa.Store); ok {
								switch fieldNameOf(fa.X.Type(), fa.Field) {
								case "Number":
									hn = Param("number")(st.Val)
								case "References":
									hr = Param("references")(st.Val)
								}
							}
						}
					}
				}
			}
			okr = okr && hn && hr
		}
		c.Require(okr, "provenance", shortName(f)+"|round records", "the closed round is stored under references.Self and the new head round carries the given number and references", "round record operands changed")
	}
}
