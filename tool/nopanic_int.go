package main

import (
	"golang.org/x/tools/go/ssa"
)

// Precondition functions: common.Integer arithmetic panics on sign / order violations.
// Their internal panics are accounted for at each call site (kind "intcall"), so a new
// call with an unchecked operand is reported even though the callee is unchanged.

var integerPre = map[string][]string{ // callee -> requirements per argument (receiver first)
	"(common.Integer).Add":   {">=0", ">0"},
	"(common.Integer).Sub":   {">=0", ">0", "x>=y"},
	"(common.Integer).Mul":   {">=0", "int>0"},
	"(common.Integer).Div":   {">=0", "int>0"},
	"(common.Integer).Count": {">0", ">0", "x>=y", "fits"},
}

func integerSkipPanics(fn *ssa.Function) bool {
	_, ok := integerPre[shortName(fn)]
	return ok
}

// signKnown: the Integer value v is known non-negative (strict=false) or positive (strict=true).
func signKnown(np *nopanic, fn *ssa.Function, b *ssa.BasicBlock, v ssa.Value, strict bool, depth int) bool {
	if depth > 3 {
		return false
	}
	switch x := v.(type) {
	case *ssa.Call:
		switch calleeName(&x.Call) {
		case "common.NewInteger":
			if c, ok := constIntOf(x.Call.Args[0]); ok {
				return c > 0 || !strict && c == 0
			}
			return !strict // uint64 argument
		case "common.NewIntegerFromString":
			if cs, ok := x.Call.Args[0].(*ssa.Const); ok && cs.Value != nil {
				return !strict || cs.Value.ExactString() != "\"0\""
			}
			return !strict // panics on negative input itself
		case "(common.Integer).Add":
			return !strict || signKnown(np, fn, b, x.Call.Args[1], true, depth+1) // y > 0 is Add's own precondition
		case "(common.Integer).Sub", "(common.Integer).Mul", "(common.Integer).Div":
			return !strict
		}
	case *ssa.Phi:
		// accumulator: every non-phi source is known, Add/Sub results on the accumulator are non-negative
		visited := map[*ssa.Phi]bool{}
		var okPhi func(p *ssa.Phi) bool
		okPhi = func(p *ssa.Phi) bool {
			if visited[p] {
				return true
			}
			visited[p] = true
			for _, e := range p.Edges {
				if q, isPhi := e.(*ssa.Phi); isPhi {
					if !okPhi(q) {
						return false
					}
					continue
				}
				if cl, isCall := e.(*ssa.Call); isCall && !strict {
					if n := calleeName(&cl.Call); n == "(common.Integer).Add" || n == "(common.Integer).Sub" {
						continue
					}
				}
				if !signKnown(np, fn, b, e, strict, depth+1) {
					return false
				}
			}
			return true
		}
		return okPhi(x)
	case *ssa.UnOp:
		if g, ok := x.X.(*ssa.Global); ok && g.Name() == "Zero" {
			return !strict
		}
	}
	// facts on sign(path)
	r, p := accessPath(stripConvNP(v))
	if len(p) > 0 || paramIndex(fn, r) >= 0 {
		term := "sign:" + rootKey(fn, r) + "." + joinDots(p)
		iv := np.factsAt(fn, b).get(term)
		if strict && iv.lo >= 1 || !strict && iv.lo >= 0 {
			return true
		}
	}
	return false
}

func signKnownNoPhi(np *nopanic, fn *ssa.Function, b *ssa.BasicBlock, v ssa.Value, strict bool, depth int, via *ssa.Phi) bool {
	if cl, ok := v.(*ssa.Call); ok {
		n := calleeName(&cl.Call)
		if n == "(common.Integer).Add" || n == "(common.Integer).Sub" {
			// accumulator step: result of Add/Sub on the phi itself is non-negative
			return !strict
		}
	}
	if ph, ok := v.(*ssa.Phi); ok && ph != via {
		return signKnown(np, fn, b, ph, strict, depth)
	}
	return signKnown(np, fn, b, v, strict, depth)
}

func joinDots(p []string) string {
	s := ""
	for i, x := range p {
		if i > 0 {
			s += "."
		}
		s += x
	}
	return s
}

func integerPreCall(np *nopanic, fn *ssa.Function, b *ssa.BasicBlock, cl *ssa.Call, add func(ssa.Instruction, string, string, string)) bool {
	n := calleeName(&cl.Call)
	reqs, ok := integerPre[n]
	if !ok {
		return false
	}
	if _, self := integerPre[shortName(fn)]; self {
		return true // calls between the precondition functions themselves
	}
	args := cl.Call.Args
	var missing []string
	// x >= y established by a dominating Cmp gate?
	cmpGate := func() bool {
		for _, e := range domEdges(b) {
			bo, isB := e.If.Cond.(*ssa.BinOp)
			if !isB {
				continue
			}
			cc, isC := stripConvNP(bo.X).(*ssa.Call)
			if !isC || calleeName(&cc.Call) != "(common.Integer).Cmp" {
				continue
			}
			if !(sameAccess(cc.Call.Args[0], args[0]) && (sameAccess(cc.Call.Args[1], args[1]) || cc.Call.Args[1] == args[1])) {
				continue
			}
			k, isK := constIntOf(bo.Y)
			if !isK || k != 0 {
				continue
			}
			op := bo.Op.String()
			if op == "<" && !e.Outcome || op == ">=" && e.Outcome {
				return true
			}
		}
		return false
	}
	// x < y*k established by a dominating gate `x.Cmp(y.Mul(k)) >= 0 => return`
	quotientBounded := func() bool {
		for _, e := range domEdges(b) {
			bo, isB := e.If.Cond.(*ssa.BinOp)
			if !isB {
				continue
			}
			cc, isC := stripConvNP(bo.X).(*ssa.Call)
			if !isC || calleeName(&cc.Call) != "(common.Integer).Cmp" || !sameAccess(cc.Call.Args[0], args[0]) {
				continue
			}
			ml, isM := cc.Call.Args[1].(*ssa.Call)
			if !isM || calleeName(&ml.Call) != "(common.Integer).Mul" || ml.Call.Args[0] != args[1] {
				continue
			}
			kk, isK := constIntOf(stripConvNP(ml.Call.Args[1]))
			z, isZ := constIntOf(bo.Y)
			if !isK || kk <= 0 || !isZ || z != 0 {
				continue
			}
			op := bo.Op.String()
			if op == ">=" && !e.Outcome || op == "<" && e.Outcome {
				return true
			}
		}
		return false
	}
	for i, rq := range reqs {
		if n == "(common.Integer).Count" && i == 0 && rq == ">0" {
			// x >= y and y > 0 imply x > 0
			if cmpGate() && signKnown(np, fn, b, args[1], true, 0) {
				continue
			}
		}
		switch rq {
		case ">=0":
			if !signKnown(np, fn, b, args[i], false, 0) {
				missing = append(missing, exprText(fn, args[i])+">=0")
			}
		case ">0":
			if !signKnown(np, fn, b, args[i], true, 0) {
				missing = append(missing, exprText(fn, args[i])+">0")
			}
		case "int>0":
			if c, isC := constIntOf(stripConvNP(args[i])); !isC || c <= 0 {
				iv := np.factsAt(fn, b).get(termOf(fn, args[i]))
				if termOf(fn, args[i]) == "" || iv.lo < 1 {
					missing = append(missing, exprText(fn, args[i])+">0")
				}
			}
		case "x>=y":
			if !cmpGate() {
				missing = append(missing, exprText(fn, args[0])+">="+exprText(fn, args[1]))
			}
		case "fits":
			if !quotientBounded() {
				missing = append(missing, "quotient fits uint64")
			}
		}
	}
	why := ""
	if len(missing) == 0 {
		why = "operand preconditions established (constructor / sign gate / accumulator)"
	}
	detail := n + " needs " + joinWith(missing, " && ")
	if len(missing) == 0 {
		detail = n
	}
	add(cl, "intcall", detail, why)
	return true
}

func joinWith(xs []string, sep string) string {
	s := ""
	for i, x := range xs {
		if i > 0 {
			s += sep
		}
		s += x
	}
	return s
}
