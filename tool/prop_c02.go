package main

import (
	"fmt"
	"go/token"

	"golang.org/x/tools/go/ssa"
)

func init() { register("C02", propC02) }

// C02 — spending requires threshold signatures over the payload hash.
func propC02(c *Check) {
	c.Explain = "Decides that no accepting path of input validation bypasses signature verification and that the verifier is fed the right operands: (1) validateInputs: every non-exempt accepting return passes the success edge of crypto.AggregateVerify(..)==nil or crypto.BatchVerify(..)==true; exempt accepts are exactly {mint input, deposit input, len(keySigs)==0 && type in {NodeAccept,NodeRemove}}; the verifiers' message is the hash parameter, which Validate fills with ver.PayloadHash(); keys come from the Keys of the UTXO returned by the store; the map filled by validateUTXO is the one handed to BatchVerify; len(keySigs) < len(Inputs) rejects. (2) validateUTXO: keys inserted are utxo.Keys[..] only, index gate int(i) >= len(utxo.Keys) rejects, script inputs return utxo.Script.Validate(<number of collected signers>), nil is returned only under a txType comparison, aggregate branch is gated by validateAggregatedSigners. (3) Script.Validate/VerifyFormat gates. (4) BatchVerify empty/mismatch/nil gates, single-key path delegates to Verify. (5) AggregateVerify gates and operand provenance. (6) decodePoint caches a point only after subgroup and canonical-encoding gates. (7) BatchVerifier.Verify weights every entry with its own random coefficient: each iteration of the entries loop feeds Rcoeffs[i].SetCanonicalBytes from a buffer allocated in that iteration and filled by ReadRand on at least 16 bytes, and rejects on a short signature, an undecodable R or A, or a non-canonical scalar. (8) verdict expressions: the only non-false verdict of VerifyWithChallenge is VarTimeDoubleScalarBaseMult(a, -A, s).Equal(R) == 1 past the three decode/scalar error gates, and of the batch verifier the cofactor-cleared multi-scalar combination .Equal(identity) == 1, with per-site error gates for R, A, s_i and z_i; (9) node accept / cancel, whose inputs are exempt from the input-signature rule, accept only past <pledging account key>.Verify(payloadHash, *sigs[0][0]); (10) every hash.Write precedes the hash.Sum in Key.Verify."
	c.NotCov = "soundness of the Schnorr / batch equations; 'changing any byte makes it fail' (cryptographic); equality of batch and single verification results."
	c.Floor(30)
	w := c.W

	vi := c.F("(*common.SignedTransaction).validateInputs")
	if vi != nil {
		read := Call("iface:common.UTXOLockReader.ReadUTXOLock", Param("store"))
		utxo := Extract(0, read)
		keySigs := func(v ssa.Value) bool { m, ok := v.(*ssa.MakeMap); return ok && typeShort(m.Type()) == "map[*crypto.Key]*crypto.Signature" }
		isMintDep := func(r *ssa.Return) bool {
			v := r.Results[1]
			return Path(Param("tx"), "Inputs.[].Mint.Amount")(v) || Path(Param("tx"), "Inputs.[].Deposit.Amount")(v)
		}
		emptyKS := Bin(token.EQL, Len(keySigs), ConstInt(0))
		var normal, exemptNode []ssa.Instruction
		nMD := 0
		for _, r := range acceptReturns(vi) {
			rr := r.(*ssa.Return)
			switch {
			case isMintDep(rr):
				nMD++
			case dominatedByBranch(vi, rr.Block(), emptyKS, true):
				exemptNode = append(exemptNode, r)
			default:
				normal = append(normal, r)
			}
		}
		c.Require(nMD == 2 && len(exemptNode) == 1, "exempt", shortName(vi)+"|unsigned accepts", "the accepting returns that skip signature verification are exactly: mint input, deposit input, and the len(keySigs)==0 node accept/remove return", "found mint/deposit="+itoa(nMD)+" empty-keySigs="+itoa(len(exemptNode)))
		c.MustPassAny(vi, nil, "txType in {NodeAccept, NodeRemove}", []Gate{
			{Name: "txType == NodeAccept", Cond: Bin(token.EQL, Param("txType"), w.ConstNamed("common", "TransactionTypeNodeAccept"))},
			{Name: "txType == NodeRemove", Cond: Bin(token.EQL, Param("txType"), w.ConstNamed("common", "TransactionTypeNodeRemove"))},
		}, exemptNode, "the signature-less accept")
		aggV := Call("crypto.AggregateVerify")
		batV := Call("crypto.BatchVerify")
		c.MustPassAny(vi, nil, "AggregateVerify == nil | BatchVerify == true", []Gate{
			{Name: "AggregateVerify(...) != nil => reject", RejectOnTrue: true, Cond: BinEither(token.NEQ, aggV, ConstNil)},
			{Name: "BatchVerify(...) true", RejectOnTrue: false, Cond: batV},
		}, normal, "every ordinary accepting return of validateInputs")
		c.MustPass(vi, Gate{Name: "len(keySigs) < len(tx.Inputs) => reject", RejectOnTrue: true,
			Cond: Bin(token.LSS, Len(keySigs), Len(Path(Param("tx"), "Inputs")))}, normal, "every ordinary accepting return")
		// operand provenance
		for _, ci := range findCalls(vi, "crypto.AggregateVerify") {
			a := ci.Common().Args
			ok := len(a) == 4 && Param("hash")(a[3]) && PhiNamed("allKeys")(a[1]) &&
				Path(Param("tx"), "AggregatedSignature.Signers")(a[2]) && Has(Path(Param("tx"), "AggregatedSignature"))(a[0])
			c.Require(ok, "provenance", shortName(vi)+"|AggregateVerify operands", "AggregateVerify(&as.Signature, allKeys, as.Signers, hash): message is the hash parameter, keys are the accumulated UTXO keys, signers/signature from tx.AggregatedSignature", "operands changed", instrPos(w, ci))
		}
		for _, ci := range findCalls(vi, "crypto.BatchVerify") {
			a := ci.Common().Args
			fromKS := Has(func(v ssa.Value) bool { r, ok := v.(*ssa.Range); return ok && keySigs(r.X) })
			ok := len(a) == 3 && Param("hash")(a[0]) && fromKS(a[1]) && fromKS(a[2])
			c.Require(ok, "provenance", shortName(vi)+"|BatchVerify operands", "BatchVerify(hash, keys, sigs): message is the hash parameter; keys and sigs are collected by ranging over keySigs", "operands changed", instrPos(w, ci))
		}
		lp := c.RangeLoop(vi, "inputs", Path(Param("tx"), "Inputs"))
		c.Accumulator(vi, lp, "allKeys", func(self VM) VM {
			return Call("builtin:append", self, Path(utxo, "Keys"))
		}, "allKeys = append(allKeys, utxo.Keys...) with utxo the store result")
		vus := findCalls(vi, "common.validateUTXO")
		ok := len(vus) == 1
		if ok {
			a := vus[0].Common().Args
			root, _ := accessPath(a[1])
			ok = utxo(root) && keySigs(a[5]) && Path(Param("tx"), "SignaturesMap")(a[2]) && Path(Param("tx"), "AggregatedSignature")(a[3]) && Len(PhiNamed("allKeys"))(a[6])
		}
		c.Require(ok, "provenance", shortName(vi)+"|validateUTXO operands", "validateUTXO receives the UTXO read from the store, tx.SignaturesMap, tx.AggregatedSignature, the keySigs map later verified, and offset len(allKeys)", "operands changed")
		if lp != nil {
			lp.exempt = isMintDep
		}
		c.LoopGate(vi, lp, Gate{Name: "validateUTXO(...) != nil => reject", RejectOnTrue: true,
			Cond: BinEither(token.NEQ, Call("common.validateUTXO"), ConstNil)}, "each input's signer collection / threshold verdict is honoured")
	}
	if va := c.F("(*common.VersionedTransaction).Validate"); va != nil {
		cs := findCalls(va, "(*common.SignedTransaction).validateInputs")
		ok := len(cs) == 1 && Call("(*common.VersionedTransaction).PayloadHash", Param("ver"))(cs[0].Common().Args[2])
		c.Require(ok, "provenance", shortName(va)+"|validateInputs.hash", "validateInputs is called with hash = ver.PayloadHash()", "hash argument is not the payload hash of the validated transaction")
	}

	vu := c.F("common.validateUTXO")
	if vu != nil {
		// every key inserted comes from utxo.Keys
		n := 0
		allok := true
		var sites []string
		eachInstr(vu, func(b *ssa.BasicBlock, ins ssa.Instruction) {
			if mu, ok := ins.(*ssa.MapUpdate); ok && Param("keySigs")(mu.Map) {
				n++
				sites = append(sites, instrPos(w, ins))
				if !Path(Param("utxo"), "Keys.[]")(mu.Key) {
					allok = false
				}
			}
		})
		c.Sites += n
		c.Require(n == 2 && allok, "provenance", shortName(vu)+"|keySigs keys", "every key inserted into keySigs is an element of the spent output's own key list utxo.Keys", "a key from another source is inserted, or the insertions changed ("+itoa(n)+" sites)", sites...)
		sigMap := Path(Param("sigs"), "[]")
		lp := c.RangeLoop(vu, "sigs[index]", sigMap)
		c.LoopGate(vu, lp, Gate{Name: "int(i) >= len(utxo.Keys) => reject", RejectOnTrue: true,
			Cond: Bin(token.GEQ, Conv(AnyV), Len(Path(Param("utxo"), "Keys")))}, "signature map indexes are inside the key list")
		c.LoopEffect(vu, lp, func(ins ssa.Instruction) bool {
			mu, ok := ins.(*ssa.MapUpdate)
			return ok && Param("keySigs")(mu.Map)
		}, "keySigs[utxo.Keys[i]] = sig", "every signature of the input is handed to the verifier")
		// script returns
		var valCalls []ssa.Value
		valCalls = findValues(vu, Call("(common.Script).Validate", Path(Param("utxo"), "Script")))
		okv := len(valCalls) == 2
		nLen, nPhi := 0, 0
		for _, v := range valCalls {
			a := v.(*ssa.Call).Call.Args[1]
			if Len(sigMap)(a) {
				nLen++
			}
			if PhiNamed("signers")(a) {
				nPhi++
			}
		}
		c.Require(okv && nLen == 1 && nPhi == 1, "shape", shortName(vu)+"|Script.Validate(count)", "script inputs return utxo.Script.Validate(n) with n = len(sigs[index]) (map branch) or the counted aggregate signers", "threshold is evaluated on a different count")
		// signers counter incremented in the block that inserts the key (aggregate branch)
		coloc := false
		eachInstr(vu, func(b *ssa.BasicBlock, ins ssa.Instruction) {
			if mu, ok := ins.(*ssa.MapUpdate); ok && ConstNil(mu.Value) {
				for _, j := range b.Instrs {
					if bo, ok := j.(*ssa.BinOp); ok && bo.Op == token.ADD && PhiNamed("signers")(bo.X) && ConstInt(1)(bo.Y) {
						coloc = true
					}
				}
			}
		})
		c.Require(coloc, "shape", shortName(vu)+"|signers++ with insertion", "in the aggregate branch the signer count is incremented exactly where the key is inserted", "count and insertion are separated")
		// nil returns only under a txType comparison
		var nilRets []ssa.Instruction
		for _, r := range allReturns(vu) {
			if ConstNil(r.Results[0]) {
				nilRets = append(nilRets, r)
			}
		}
		c.MustPassAny(vu, nil, "txType == <const>", []Gate{{Name: "txType == const", Min: 3, Cond: Bin(token.EQL, Param("txType"), func(v ssa.Value) bool { _, ok := v.(*ssa.Const); return ok })}}, nilRets, "every constant-nil return of validateUTXO (kernel multisig inputs)")
		// other accepting returns are Script.Validate results
		for _, r := range acceptReturns(vu) {
			rr := r.(*ssa.Return)
			if ConstNil(rr.Results[0]) {
				continue
			}
			c.Require(Call("(common.Script).Validate")(rr.Results[0]), "shape", shortName(vu)+"|accept is Script.Validate", "every non-constant accepting return of validateUTXO is the verdict of utxo.Script.Validate", "another value is returned", instrPos(w, r))
		}
		c.MustPass(vu, Gate{Name: "validateAggregatedSigners(as.Signers) != nil => reject", RejectOnTrue: true,
			Cond: BinEither(token.NEQ, Call("common.validateAggregatedSigners", Path(Param("as"), "Signers")), ConstNil)},
			valueInstrs(findValues(vu, Call("(common.Script).Validate", nil, PhiNamed("signers")))), "the aggregate threshold verdict")
	}
	if f := c.F("(common.Script).Validate"); f != nil {
		rets := acceptReturns(f)
		c.MustPass(f, Gate{Name: "VerifyFormat() != nil => reject", RejectOnTrue: true, Cond: BinEither(token.NEQ, Call("(common.Script).VerifyFormat", Param("s")), ConstNil)}, rets, "accept")
		c.MustPass(f, Gate{Name: "sum < int(s[2]) => reject", RejectOnTrue: true, Cond: Bin(token.LSS, Param("sum"), Conv(Path(Param("s"), "[]")))}, rets, "accept")
	}
	if f := c.F("(common.Script).VerifyFormat"); f != nil {
		rets := acceptReturns(f)
		c.MustPass(f, Gate{Name: "len(s) != 3 => reject", RejectOnTrue: true, Cond: Bin(token.NEQ, Len(Param("s")), ConstInt(3))}, rets, "accept")
		c.MustPass(f, Gate{Name: "s[2] > Operator64 => reject", RejectOnTrue: true, Cond: Bin(token.GTR, Path(Param("s"), "[]"), w.ConstNamed("common", "Operator64"))}, rets, "accept")
		c.MustPass(f, Gate{Name: "s[0] != OperatorCmp => reject", RejectOnTrue: true, Cond: Bin(token.NEQ, Path(Param("s"), "[]"), w.ConstNamed("common", "OperatorCmp"))}, rets, "accept")
		c.MustPass(f, Gate{Name: "s[1] != OperatorSum => reject", RejectOnTrue: true, Cond: Bin(token.NEQ, Path(Param("s"), "[]"), w.ConstNamed("common", "OperatorSum"))}, rets, "accept")
	}
	if f := c.F("crypto.BatchVerify"); f != nil {
		rets := acceptReturns(f)
		c.MustPass(f, Gate{Name: "len(keys) == 0 => false", RejectOnTrue: true, Cond: Bin(token.EQL, Len(Param("keys")), ConstInt(0))}, rets, "any non-false return")
		c.MustPass(f, Gate{Name: "len(keys) != len(sigs) => false", RejectOnTrue: true, Cond: Bin(token.NEQ, Len(Param("keys")), Len(Param("sigs")))}, rets, "any non-false return")
		nl := c.RangeLoop(f, "nil scan#1/2", Param("keys"))
		c.LoopGate(f, nl, Gate{Name: "keys[i] == nil => false", RejectOnTrue: true, Cond: BinEither(token.EQL, Path(Param("keys"), "[]"), ConstNil)}, "no nil key reaches the verifier")
		c.LoopGate(f, nl, Gate{Name: "sigs[i] == nil => false", RejectOnTrue: true, Cond: BinEither(token.EQL, Path(Param("sigs"), "[]"), ConstNil)}, "no nil signature reaches the verifier")
		if nl != nil {
			// the scan precedes every use: it dominates both verdict computations
			okd := true
			for _, r := range rets {
				if !nl.Header.Dominates(r.Block()) {
					okd = false
				}
			}
			c.Require(okd, "order", shortName(f)+"|nil scan first", "the nil scan over all pairs dominates every verdict", "a verdict is computed before / without the scan")
		}
		for _, r := range rets {
			v := r.(*ssa.Return).Results[0]
			ok := Call("(*crypto.Key).Verify", Path(Param("keys"), "[]"), Param("msg"), Path(Param("sigs"), "[]"))(v) || Call("(*crypto.BatchVerifier).Verify")(v)
			c.Require(ok, "shape", shortName(f)+"|verdict source", "BatchVerify's verdict is keys[0].Verify(msg, *sigs[0]) or the batch verifier's Verify()", "another value is returned", instrPos(w, r))
		}
		// every (key,msg,sig) is added
		lp := c.ForOrRangeLoopWithCall(f, "add loop", "(*crypto.BatchVerifier).add")
		c.LoopEffect(f, lp, func(ins ssa.Instruction) bool {
			cl, ok := ins.(*ssa.Call)
			return ok && Call("(*crypto.BatchVerifier).add", nil, Path(Param("keys"), "[]"), Has(Param("msg")), Has(Path(Param("sigs"), "[]")))(cl)
		}, "verifier.add(keys[i], msg, sigs[i])", "every pair enters the batch equation")
	}
	// ---- batch equation: an independent random coefficient per entry. With one shared z the
	// equation degenerates to z * (sum of the single equations) and errors in different
	// signatures cancel; the random linear combination is only sound with a fresh z_i each.
	if f := c.F("(*crypto.BatchVerifier).Verify"); f != nil {
		lp := c.RangeLoop(f, "entries", Path(Param("v"), "entries"))
		if lp != nil {
			sliceRoot := func(v ssa.Value) ssa.Value {
				for {
					sl, ok := v.(*ssa.Slice)
					if !ok {
						return v
					}
					v = sl.X
				}
			}
			c.LoopEffect(f, lp, func(ins ssa.Instruction) bool {
				cl, ok := ins.(*ssa.Call)
				if !ok || !Call("(*filippo.io/edwards25519.Scalar).SetCanonicalBytes")(cl) || len(cl.Call.Args) < 2 {
					return false
				}
				root := sliceRoot(cl.Call.Args[1])
				ri, ok := root.(ssa.Instruction)
				if !ok || !lp.Blocks[ri.Block().Index] {
					return false
				}
				switch root.(type) {
				case *ssa.Alloc, *ssa.MakeSlice:
				default:
					return false
				}
				// filled by ReadRand on >= 16 bytes of the same per-iteration buffer, before use, in the same block
				for _, prev := range cl.Block().Instrs {
					if prev == ins {
						break
					}
					rc, ok := prev.(*ssa.Call)
					if !ok || !Call("crypto.ReadRand")(rc) || sliceRoot(rc.Call.Args[0]) != root {
						continue
					}
					if sl, ok := rc.Call.Args[0].(*ssa.Slice); ok && sl.High != nil && sl.Low == nil {
						if k, ok := sl.High.(*ssa.Const); ok && k.Int64() >= 16 {
							return true
						}
					}
				}
				return false
			}, "z_i = fresh ReadRand(>=16 bytes) buffer allocated in this iteration -> Rcoeffs[i].SetCanonicalBytes", "each entry is weighted by its own independent 128-bit random coefficient")
			c.LoopGate(f, lp, Gate{Name: "len(entry.signature) != 64 => false", RejectOnTrue: true,
				Cond: Bin(token.NEQ, Len(Path(Param("v"), "entries.[].signature")), ConstInt(64))}, "only full-length signatures enter the equation")
			ent := func(field string) VM { return Has(Path(Param("v"), "entries.[]."+field)) }
			c.LoopGate(f, lp, Gate{Name: "decodePoint(entry.signature[:32]) err != nil => false", RejectOnTrue: true,
				Cond: BinEither(token.NEQ, Extract(1, Call("crypto.decodePoint", ent("signature"))), ConstNil)}, "R is a valid decoded point")
			c.LoopGate(f, lp, Gate{Name: "decodePoint(entry.pubkey) err != nil => false", RejectOnTrue: true,
				Cond: BinEither(token.NEQ, Extract(1, Call("crypto.decodePoint", ent("pubkey"))), ConstNil)}, "A is a valid decoded point")
			c.LoopGate(f, lp, Gate{Name: "s_i SetCanonicalBytes(entry.signature[32:]) err != nil => false", RejectOnTrue: true,
				Cond: BinEither(token.NEQ, Extract(1, Call("(*filippo.io/edwards25519.Scalar).SetCanonicalBytes", nil, ent("signature"))), ConstNil)}, "s_i is a canonical scalar")
			c.LoopGate(f, lp, Gate{Name: "z_i SetCanonicalBytes(buf) err != nil => false", RejectOnTrue: true,
				Cond: BinEither(token.NEQ, Extract(1, Call("(*filippo.io/edwards25519.Scalar).SetCanonicalBytes", nil, func(v ssa.Value) bool { return !ent("signature")(v) })), ConstNil)}, "z_i is a canonical scalar")
		}
	}
	// ---- compensating signature checks of the classes exempted from the input-signature rule:
	// a node accept / cancel is authorised by one signature of the pledging account over the payload hash
	for _, n := range []string{"(*common.Transaction).validateNodeAccept", "(*common.Transaction).validateNodeCancel"} {
		if f := c.F(n); f != nil {
			ver := Call("(*crypto.Key).Verify", nil, Param("payloadHash"), Has(Param("sigs")))
			c.MustPass(f, Gate{Name: "<pledging account key>.Verify(payloadHash, *sigs[0][0]) true", RejectOnTrue: false, Cond: ver}, acceptReturns(f), "accepting the operation (its inputs carry no ordinary signatures)")
			c.MustPass(f, Gate{Name: "len(sigs) != 1 => reject", RejectOnTrue: true, Cond: Bin(token.NEQ, Len(Param("sigs")), ConstInt(1))}, acceptReturns(f), "accepting the operation")
		}
	}
	// ---- verdict expressions of the two Schnorr verifiers: a non-false verdict is exactly the
	// group-equation test "== 1" (an inverted or weakened comparison accepts invalid signatures)
	if f := c.F("(*crypto.Key).VerifyWithChallenge"); f != nil {
		n, bad := 0, ""
		pk := Extract(0, Call("crypto.decodePoint", Has(Param("publicKey"))))
		rs := Extract(0, Call("crypto.decodePoint", Has(Param("sig"))))
		bsc := Extract(0, Call("(*filippo.io/edwards25519.Scalar).SetCanonicalBytes", nil, Has(Param("sig"))))
		negA := Call("(*filippo.io/edwards25519.Point).Negate", nil, pk)
		rr := Call("(*filippo.io/edwards25519.Point).VarTimeDoubleScalarBaseMult", nil, Param("a"), negA, bsc)
		for _, r := range allReturns(f) {
			v := retValue(r, 0)
			if ConstBool(false)(v) {
				continue
			}
			n++
			if !Bin(token.EQL, Call("(*filippo.io/edwards25519.Point).Equal", rr, rs), ConstInt(1))(v) {
				bad = instrPos(w, r)
			}
		}
		nonFalse := []ssa.Instruction{}
		for _, r := range allReturns(f) {
			if !ConstBool(false)(retValue(r, 0)) {
				nonFalse = append(nonFalse, r)
			}
		}
		c.MustPass(f, Gate{Name: "decodePoint(publicKey) err != nil => false", RejectOnTrue: true, Cond: BinEither(token.NEQ, Extract(1, Call("crypto.decodePoint", Has(Param("publicKey")))), ConstNil)}, nonFalse, "the verdict")
		c.MustPass(f, Gate{Name: "decodePoint(sig[:32]) err != nil => false", RejectOnTrue: true, Cond: BinEither(token.NEQ, Extract(1, Call("crypto.decodePoint", Has(Param("sig")))), ConstNil)}, nonFalse, "the verdict")
		c.MustPass(f, Gate{Name: "SetCanonicalBytes(sig[32:]) err != nil => false", RejectOnTrue: true, Cond: BinEither(token.NEQ, Extract(1, Call("(*filippo.io/edwards25519.Scalar).SetCanonicalBytes", nil, Has(Param("sig")))), ConstNil)}, nonFalse, "the verdict")
		c.Require(n == 1 && bad == "", "shape", shortName(f)+"|verdict = ([s]B - [a]A == R)", "the only non-false verdict is VarTimeDoubleScalarBaseMult(a, -A, s).Equal(R) == 1 with A decoded from the key, R and s from the signature", fmt.Sprintf("non-false returns: %d; offending return %q", n, bad), c.W.Pos(f.Pos()))
	}
	if f := c.F("(*crypto.BatchVerifier).Verify"); f != nil {
		n, bad := 0, ""
		msm := Call("(*filippo.io/edwards25519.Point).VarTimeMultiScalarMult")
		for _, r := range allReturns(f) {
			v := retValue(r, 0)
			if ConstBool(false)(v) {
				continue
			}
			n++
			if !Bin(token.EQL, Call("(*filippo.io/edwards25519.Point).Equal", msm, Call("filippo.io/edwards25519.NewIdentityPoint")), ConstInt(1))(v) {
				bad = instrPos(w, r)
			}
		}
		cof := findCalls(f, "(*filippo.io/edwards25519.Point).MultByCofactor")
		c.Require(n == 1 && bad == "" && len(cof) == 1, "shape", shortName(f)+"|verdict = (cofactor * combination == identity)", "the only non-false verdict of the batch verifier is VarTimeMultiScalarMult(scalars, points), multiplied by the cofactor, .Equal(identity) == 1", fmt.Sprintf("non-false returns: %d; offending return %q; cofactor multiplications: %d", n, bad, len(cof)), c.W.Pos(f.Pos()))
	}
	if f := c.F("crypto.AggregateVerify"); f != nil {
		rets := acceptReturns(f)
		agg := Call("crypto.aggregateWeightedPublicKey", Param("publics"), Param("signers"))
		c.MustPass(f, Gate{Name: "sig == nil => reject", RejectOnTrue: true, Cond: BinEither(token.EQL, Param("sig"), ConstNil)}, rets, "accept")
		c.MustPass(f, Gate{Name: "aggregateWeightedPublicKey err != nil => reject", RejectOnTrue: true, Cond: BinEither(token.NEQ, Extract(3, agg), ConstNil)}, rets, "accept")
		c.MustPass(f, Gate{Name: "A.Verify(message, *sig) true", RejectOnTrue: false,
			Cond: Call("(*crypto.Key).Verify", Has(Extract(0, agg)), Param("message"), Path(Param("sig"), ""))}, rets, "accept")
	}
	if f := c.F("crypto.decodePoint"); f != nil {
		stores := callInstrs(findCalls(f, "(*crypto.decodedPointShard).store"))
		setb := Call("(*filippo.io/edwards25519.Point).SetBytes", nil, Param("src"))
		p := Extract(0, setb)
		c.MustPass(f, Gate{Name: "SetBytes(src) err != nil => reject", RejectOnTrue: true, Cond: BinEither(token.NEQ, Extract(1, setb), ConstNil)}, stores, "caching a decoded point")
		c.MustPass(f, Gate{Name: "isPrimeOrderPoint(p) true", RejectOnTrue: false, Cond: Call("crypto.isPrimeOrderPoint", p)}, stores, "caching a decoded point")
		c.MustPass(f, Gate{Name: "bytes.Equal(src, p.Bytes()) true", RejectOnTrue: false, Cond: Call("bytes.Equal", Param("src"), Call("(*filippo.io/edwards25519.Point).Bytes", p))}, stores, "caching a decoded point")
		// a miss-path accept returns the freshly decoded point
		var missRets []ssa.Instruction
		for _, r := range acceptReturns(f) {
			if p(r.(*ssa.Return).Results[0]) {
				missRets = append(missRets, r)
			}
		}
		c.MustPass(f, Gate{Name: "isPrimeOrderPoint(p) true (return)", RejectOnTrue: false, Cond: Call("crypto.isPrimeOrderPoint", p)}, missRets, "returning a freshly decoded point")
		c.MustPass(f, Gate{Name: "bytes.Equal(src, p.Bytes()) true (return)", RejectOnTrue: false, Cond: Call("bytes.Equal", Param("src"), Call("(*filippo.io/edwards25519.Point).Bytes", p))}, missRets, "returning a freshly decoded point")
		// hit path: returned value comes from shard.load
		for _, r := range acceptReturns(f) {
			v := r.(*ssa.Return).Results[0]
			c.Require(p(v) || Call("(*crypto.decodedPointShard).load")(v), "shape", shortName(f)+"|return source", "decodePoint returns only the freshly decoded point or a cache load", "another value is returned", instrPos(w, r))
		}
		// who may store into the cache
		c.WhoCalls("(*crypto.decodedPointShard).store", []string{"crypto.decodePoint"}, "only decodePoint (after its gates) fills the decoded-point cache")
	}
	if f := c.F("(*crypto.Key).Verify"); f != nil {
		// the challenge hashes sig[:32], publicKey, message and delegates to VerifyWithChallenge
		rets := acceptReturns(f)
		okk := len(rets) == 1 && Call("(*crypto.Key).VerifyWithChallenge", Param("publicKey"), Has(Param("sig")))(rets[0].(*ssa.Return).Results[0])
		c.Require(okk, "shape", shortName(f)+"|delegates", "Key.Verify returns publicKey.VerifyWithChallenge(sig, x)", "verdict is no longer the challenge verification")
		c.HashSealedAfterWrites(f, "the Schnorr challenge binds R, the public key and the message")
		writes := findCalls(f, "iface:hash.Hash.Write")
		hasSig, hasKey, hasMsg := false, false, false
		for _, wc := range writes {
			a := wc.Common().Args[0]
			hasSig = hasSig || Has(Param("sig"))(a)
			hasKey = hasKey || Has(Param("publicKey"))(a)
			hasMsg = hasMsg || Has(Param("message"))(a)
		}
		c.Require(hasSig && hasKey && hasMsg, "provenance", shortName(f)+"|challenge transcript", "the Schnorr challenge hashes R (sig[:32]), the public key and the message", "an ingredient is missing from the challenge hash")
	}
}
