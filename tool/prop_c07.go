package main

import (
	"fmt"
	"go/token"
	"go/types"
	"strings"

	"golang.org/x/tools/go/ssa"
)

func init() { register("C07", propC07) }

func decoderCalls(callee string, ci ssa.CallInstruction) bool {
	return strings.HasPrefix(callee, "(*common.Decoder).")
}

// structLiteralFields: names of fields stored into fresh allocations of the named struct in fn.
func structLiteralFields(fn *ssa.Function, structPtr string) []string {
	set := map[string]bool{}
	eachInstr(fn, func(b *ssa.BasicBlock, ins ssa.Instruction) {
		if st, ok := ins.(*ssa.Store); ok {
			if fa, ok := st.Addr.(*ssa.FieldAddr); ok && typeShort(fa.X.Type()) == structPtr {
				if _, fresh := fa.X.(*ssa.Alloc); fresh {
					set[fieldNameOf2(fa.X.Type(), fa.Field)] = true
				}
			}
		}
	})
	return setKeys(set)
}

// fieldNameOf2 returns the field name including embedded ones.
func fieldNameOf2(t types.Type, idx int) string {
	st, _ := structOf(t)
	if st == nil || idx >= st.NumFields() {
		return "?"
	}
	return st.Field(idx).Name()
}

func propC07(c *Check) {
	c.Explain = "Decides the structure of canonical snapshot decoding and of the hash payload: (1) error discipline: in every decoding function of package common no error returned by a Decoder read method is dropped or overwritten untested — each is returned directly or tested against nil on an edge that only rejects (so a short read can never be taken for a value); this is what makes 'full 8-byte topology suffix or none' hold in DecodeSnapshotWithTopo; (2) DecodeSnapshotWithTopo returns a snapshot only past: version gate, transaction count in [1, SnapshotTransactionsMaximum], strictly increasing hashes (per-iteration bytes.Compare >= 0 => reject), round 0 => exactly one transaction and nil references, later rounds => non-nil references; the no-suffix accept requires err == io.EOF on the topology read, the with-suffix accept requires the trailing-byte probe to hit io.EOF; (3) the hash payload: versionedPayload builds a fresh Snapshot with exactly {Version, NodeId, RoundNumber, References, Transactions, Timestamp} (no Signature, Hash or topology), encodes it with EncodeSnapshotPayload (which panics on a present signature) and PayloadHash is Blake3 of that; (4) the encoder sorts transactions and panics on duplicates, counts/round-0 shape before emitting; encoder and decoder agree on the primitive sequence (version, node, round, references, count, hashes, timestamp, cosi signature, [topology])."
	c.NotCov = "hash collision resistance; value-level round trip beyond the agreed primitive sequence."
	c.Floor(20)
	w := c.W
	// (1) error discipline over decoding.go
	n := 0
	for _, fn := range w.ModuleFuncs() {
		pos := w.Fset.Position(fn.Pos())
		if !strings.HasSuffix(pos.Filename, "/common/decoding.go") {
			continue
		}
		has := false
		eachInstr(fn, func(b *ssa.BasicBlock, ins ssa.Instruction) {
			if cl, ok := ins.(*ssa.Call); ok && decoderCalls(calleeName(&cl.Call), cl) {
				res := cl.Call.Signature().Results()
				if res.Len() > 0 && isErrorType(res.At(res.Len()-1).Type()) {
					has = true
				}
			}
		})
		if !has {
			continue
		}
		n++
		c.Funcs[shortName(fn)] = true
		c.ErrorsPropagated(fn, decoderCalls, "a failed or short read must reject, never yield a value")
	}
	c.Require(n >= 12, "floor", "C07|decoding functions", "at least 12 decoding functions with Decoder reads are analysed", "found "+itoa(n))

	if f := c.F("(*common.Decoder).DecodeSnapshotWithTopo"); f != nil {
		var accepts []ssa.Instruction
		for _, r := range acceptReturns(f) {
			if !ConstNil(retValue(r.(*ssa.Return), 0)) {
				accepts = append(accepts, r)
			}
		}
		c.Require(len(accepts) == 2, "shape", shortName(f)+"|two accepts", "one accept without topology suffix, one with", "found "+itoa(len(accepts)))
		ver := Call("common.checkSnapVersion")
		tl := Extract(0, Call("(*common.Decoder).ReadInt", Param("dec")))
		c.MustPass(f, Gate{Name: "version < SnapshotVersionCommonEncoding => reject", RejectOnTrue: true, Cond: Bin(token.LSS, ver, w.ConstNamed("common", "SnapshotVersionCommonEncoding"))}, accepts, "returning a snapshot")
		c.MustPass(f, Gate{Name: "tl < 1 => reject", RejectOnTrue: true, Cond: Bin(token.LSS, tl, ConstInt(1))}, accepts, "returning a snapshot")
		c.MustPass(f, Gate{Name: "tl > SnapshotTransactionsMaximum => reject", RejectOnTrue: true, Cond: Bin(token.GTR, tl, w.ConstNamed("common", "SnapshotTransactionsMaximum"))}, accepts, "returning a snapshot")
		// strictly increasing
		cmp := findIfs(f, Bin(token.GEQ, Call("bytes.Compare"), ConstInt(0)))
		okc := len(cmp) == 1
		if okc {
			cl := cmp[0].Cond.(*ssa.BinOp).X.(*ssa.Call)
			a0, a1 := cl.Call.Args[0], cl.Call.Args[1]
			tx := func(v ssa.Value) bool { _, p := accessPath(v); return len(p) >= 2 && p[len(p)-2] == "Transactions" && p[len(p)-1] == "[]" }
			okc = SliceOf(tx)(a0) && SliceOf(tx)(a1) && hasIndexDeep(a0, Bin(token.SUB, nil, ConstInt(1))) && !hasIndexDeep(a1, Bin(token.SUB, nil, ConstInt(1)))
			sb := cmp[0].Block().Succs[0]
			r, isRet := sb.Instrs[len(sb.Instrs)-1].(*ssa.Return)
			okc = okc && isRet && isRejectReturn(f, r) && blockInCycle(f, cmp[0].Block())
		}
		c.Require(okc, "loopgate", shortName(f)+"|strictly increasing hashes", "for every adjacent pair bytes.Compare(tx[i-1], tx[i]) >= 0 rejects", "order check changed")
		// every adjacent pair: for i = 1, 2, 3 the comparison cannot be skipped inside an iteration
		// (index-dependent guards are evaluated for that i; all other branches are kept), and the
		// scan starts at an index <= 1
		if okc {
			cl := cmp[0].Cond.(*ssa.BinOp).X.(*ssa.Call)
			var idx ssa.Value
			for v := cl.Call.Args[1]; v != nil; {
				switch x := v.(type) {
				case *ssa.Slice:
					v = x.X
				case *ssa.UnOp:
					v = x.X
				case *ssa.FieldAddr:
					v = x.X
				case *ssa.IndexAddr:
					idx = x.Index
					v = nil
				default:
					v = nil
				}
			}
			hdr := headerOf(f, cmp[0].Block())
			skipped := ""
			startOK := false
			if idx != nil && hdr != nil {
				// scan start
				switch x := idx.(type) {
				case *ssa.Phi:
					for _, e := range x.Edges {
						if k, isC := constIntOf(e); isC && k <= 1 {
							startOK = true
						}
					}
				case *ssa.BinOp: // range index: phi(-1)+1
					if ph, isPhi := x.X.(*ssa.Phi); isPhi && strings.HasPrefix(ph.Comment, "rangeindex") {
						startOK = true
					}
				}
				loopBlocks := naturalLoop(f, hdr)
				for _, iv := range []int64{1, 2, 3} {
					cut := map[Edge]bool{}
					for _, s2 := range cmp[0].Block().Succs {
						cut[Edge{cmp[0].Block().Index, s2.Index}] = true
					}
					for bi := range loopBlocks {
						b := f.Blocks[bi]
						iff, isIf := b.Instrs[len(b.Instrs)-1].(*ssa.If)
						if !isIf || b == hdr {
							continue
						}
						bo, isBo := iff.Cond.(*ssa.BinOp)
						if !isBo || stripConv(bo.X) != idx {
							continue
						}
						k, isC := constIntOf(stripConv(bo.Y))
						if !isC {
							continue
						}
						var val bool
						switch bo.Op {
						case token.GTR:
							val = iv > k
						case token.GEQ:
							val = iv >= k
						case token.LSS:
							val = iv < k
						case token.LEQ:
							val = iv <= k
						case token.EQL:
							val = iv == k
						case token.NEQ:
							val = iv != k
						default:
							continue
						}
						if val {
							cut[Edge{b.Index, b.Succs[1].Index}] = true
						} else {
							cut[Edge{b.Index, b.Succs[0].Index}] = true
						}
					}
					body := hdr.Succs[0]
					if body != cmp[0].Block() && reachable(f, body, cut)[hdr.Index] {
						skipped = fmt.Sprintf("for index %d an iteration completes without comparing tx[%d] with tx[%d]", iv, iv-1, iv)
					}
				}
			}
			c.Require(idx != nil && startOK && skipped == "", "loopgate", shortName(f)+"|every adjacent pair is compared", "the order scan starts at index <= 1 and, for indexes 1, 2, 3, no iteration completes without the comparison", skipped+fmt.Sprintf(" (start ok: %v)", startOK), ifPos(w, cmp[0]))
		}
		// the order loop runs i = 1 .. len-1 and dominates the accepts
		if okc {
			dom := true
			for _, a := range accepts {
				if !headerOf(f, cmp[0].Block()).Dominates(a.Block()) {
					dom = false
				}
			}
			c.Require(dom, "order", shortName(f)+"|order scan before accept", "the order scan precedes every accept", "scan bypassed")
		}
		s := func(v ssa.Value) bool { a, ok := v.(*ssa.Alloc); return ok && typeShort(a.Type()) == "*common.Snapshot" }
		rn := PathFrom(s, "RoundNumber")
		c.MustPassAny(f, nil, "round 0: one transaction, nil references | later: references", []Gate{
			{Name: "round 0: references != nil => reject", RejectOnTrue: true, Cond: BinEither(token.NEQ, PathFrom(s, "References"), ConstNil)},
			{Name: "later rounds: references == nil => reject", RejectOnTrue: true, Cond: BinEither(token.EQL, PathFrom(s, "References"), ConstNil)},
		}, accepts, "returning a snapshot")
		c.MustPassAny(f, nil, "round 0 => exactly one transaction", []Gate{
			{Name: "RoundNumber == 0 false", RejectOnTrue: true, Cond: Bin(token.EQL, rn, ConstInt(0))},
			{Name: "len(Transactions) != 1 => reject", RejectOnTrue: true, Cond: Bin(token.NEQ, Len(PathFrom(s, "Transactions")), ConstInt(1))},
		}, accepts, "returning a snapshot")
		// suffix handling
		topoRead := func(v ssa.Value) bool {
			cl, ok := v.(*ssa.Call)
			if !ok || calleeName(&cl.Call) != "(*common.Decoder).ReadUint64" {
				return false
			}
			// the last ReadUint64 in the function (after ReadCosiSignature)
			for _, cs := range findCalls(f, "(*common.Decoder).ReadCosiSignature") {
				if cs.Block().Dominates(cl.Block()) {
					return true
				}
			}
			return false
		}
		eof := Global("EOF")
		var noSuffix, withSuffix []ssa.Instruction
		for _, a := range accepts {
			if dominatedByBranch(f, a.Block(), BinEither(token.EQL, Extract(1, topoRead), eof), true) {
				noSuffix = append(noSuffix, a)
			} else {
				withSuffix = append(withSuffix, a)
			}
		}
		c.Require(len(noSuffix) == 1 && len(withSuffix) == 1, "shape", shortName(f)+"|suffix accepts", "the no-suffix accept is taken only when the topology read hits io.EOF", "found "+itoa(len(noSuffix))+"/"+itoa(len(withSuffix)))
		c.MustPass(f, Gate{Name: "topology read err != nil => reject (partial suffix)", RejectOnTrue: true, Cond: BinEither(token.NEQ, Extract(1, topoRead), ConstNil)}, withSuffix, "accepting a snapshot with a topology suffix")
		rb := Call("(*bytes.Reader).ReadByte")
		c.MustPass(f, Gate{Name: "trailing probe err != io.EOF => reject", RejectOnTrue: true, Cond: BinEither(token.NEQ, Extract(1, rb), eof)}, withSuffix, "accepting a snapshot with a topology suffix")
	}

	// (3) payload
	if f := c.F("(*common.Snapshot).versionedPayload"); f != nil {
		got := structLiteralFields(f, "*common.Snapshot")
		want := []string{"Version", "NodeId", "RoundNumber", "References", "Transactions", "Timestamp"}
		c.Require(sameSet(got, want), "fields", shortName(f)+"|payload fields", "the hashed payload is built from exactly Version, NodeId, RoundNumber, References, Transactions, Timestamp", "fields: "+strings.Join(got, ","))
		// each field copied from the receiver's same field
		okp := true
		eachInstr(f, func(b *ssa.BasicBlock, ins ssa.Instruction) {
			if st, ok := ins.(*ssa.Store); ok {
				if fa, ok := st.Addr.(*ssa.FieldAddr); ok && typeShort(fa.X.Type()) == "*common.Snapshot" {
					if _, fresh := fa.X.(*ssa.Alloc); fresh && !Path(Param("s"), fieldNameOf2(fa.X.Type(), fa.Field))(st.Val) {
						okp = false
					}
				}
			}
		})
		c.Require(okp, "provenance", shortName(f)+"|fields copied from receiver", "every payload field is the receiver's field of the same name", "a payload field has another source")
		encs := findCalls(f, "(*common.Encoder).EncodeSnapshotPayload")
		c.Require(len(encs) == 1, "shape", shortName(f)+"|payload encoder", "the payload is encoded with EncodeSnapshotPayload", "encoder changed")
	}
	if f := c.F("(*common.Snapshot).PayloadHash"); f != nil {
		rets := allReturns(f)
		c.Require(len(rets) == 1 && Call("crypto.Blake3Hash", Call("(*common.Snapshot).versionedPayload", Param("s")))(retValue(rets[0], 0)), "shape", shortName(f), "PayloadHash = Blake3(versionedPayload())", "hash source changed")
	}
	all := []string{}
	if o := w.Obj("common", "Snapshot"); o != nil {
		if st, _ := structOf(o.Type()); st != nil {
			for i := 0; i < st.NumFields(); i++ {
				all = append(all, st.Field(i).Name())
			}
		}
	}
	c.Require(sameSet(all, []string{"Version", "NodeId", "References", "RoundNumber", "Timestamp", "Signature", "Hash", "Transactions"}), "fields", "common.Snapshot|field census", "Snapshot has exactly the six payload fields plus Signature and Hash (a new field must be classified as payload or not)", "fields: "+strings.Join(all, ","))

	// (4) encoder
	if f := c.F("(*common.Encoder).encodeSnapshotPayload"); f != nil {
		writes := callInstrs(findCalls(f, "(*common.Encoder).Write"))
		s := Param("s")
		c.MustPassAny(f, nil, "withSig | s.Signature == nil", []Gate{
			{Name: "withSig", RejectOnTrue: false, Cond: Param("withSig")},
			{Name: "s.Signature != nil => panic", RejectOnTrue: true, Cond: BinEither(token.NEQ, Path(s, "Signature"), ConstNil)},
		}, writes, "emitting a hash payload (never with a signature)")
		c.MustPass(f, Gate{Name: "len(Transactions) < 1 => panic", RejectOnTrue: true, Cond: Bin(token.LSS, Len(Path(s, "Transactions")), ConstInt(1))}, writes, "emitting")
		c.MustPass(f, Gate{Name: "len(Transactions) > Max => panic", RejectOnTrue: true, Cond: Bin(token.GTR, Len(Path(s, "Transactions")), w.ConstNamed("common", "SnapshotTransactionsMaximum"))}, writes, "emitting")
		sorts := findCalls(f, "~slices.SortFunc")
		dup := findIfs(f, BinEither(token.EQL, Path(s, "Transactions.[]"), Path(s, "Transactions.[]")))
		lp := c.RangeLoop(f, "transactions", Path(s, "Transactions"))
		ok := len(sorts) == 1 && len(dup) == 1 && lp != nil && sorts[0].Block().Dominates(dup[0].Block()) && headerOf(f, dup[0].Block()).Dominates(lp.Header)
		c.Require(ok, "order", shortName(f)+"|sort, dedup, emit", "transactions are sorted, checked for duplicates (panic), then emitted", "ordering changed")
		// primitive sequence agreement with the decoder
		encSeq := primSeq(f, "(*common.Encoder).", map[string]string{"Write": "bytes", "WriteUint64": "u64", "WriteInt": "int", "EncodeRoundReferences": "refs", "EncodeCosiSignature": "cosi"})
		dec := c.F("(*common.Decoder).DecodeSnapshotWithTopo")
		if dec != nil {
			decSeq := primSeq(dec, "(*common.Decoder).", map[string]string{"Read": "bytes", "ReadUint64": "u64", "ReadInt": "int", "ReadRoundReferences": "refs", "ReadCosiSignature": "cosi"})
			// encoder: magic, version(2 writes) then node...; decoder reads 4 bytes at once
			e := strings.Join(encSeq, " ")
			d := strings.Join(decSeq, " ")
			wantE := "bytes bytes bytes u64 refs int bytes* u64 cosi"
			wantD := "bytes bytes u64 refs int bytes* u64 cosi u64"
			c.Require(e == wantE && d == wantD, "sequence", "snapshot|encoder~decoder", "encoder emits [magic, version, node, round, references, count, hashes*, timestamp, cosi] and the decoder reads [version word, node, round, references, count, hashes*, timestamp, cosi, topology]", "encoder: "+e+" | decoder: "+d)
		}
	}
	if f := c.F("(*common.Encoder).EncodeSnapshotWithTopo"); f != nil {
		ok := len(findCalls(f, "(*common.Encoder).encodeSnapshotPayload")) == 1 && len(findCalls(f, "(*common.Encoder).WriteUint64")) == 1
		if ok {
			ok = Path(Param("s"), "TopologicalOrder")(findCalls(f, "(*common.Encoder).WriteUint64")[0].Common().Args[1])
		}
		c.Require(ok, "shape", shortName(f), "the stored form is payload(with signature) followed by the 8-byte topology", "shape changed")
	}
}

// nil2 filters targets to those reachable when cond is false (helper for the withSig gate): returns all targets.
func nil2(t []ssa.Instruction, f *ssa.Function, cond VM) []ssa.Instruction { return t }

// headerOf returns the loop header dominating b if b is in a cycle, else b.
func headerOf(f *ssa.Function, b *ssa.BasicBlock) *ssa.BasicBlock {
	best := b
	for _, h := range f.Blocks {
		if h.Dominates(b) && h != b && naturalLoop(f, h)[b.Index] && len(naturalLoop(f, h)) > 1 {
			if best == b || best.Dominates(h) {
				best = h
			}
		}
	}
	return best
}

// hasIndexDeep: like hasIndex but also through Slice.
func hasIndexDeep(v ssa.Value, m VM) bool {
	for {
		switch x := v.(type) {
		case *ssa.Slice:
			v = x.X
			continue
		case *ssa.UnOp:
			v = x.X
			continue
		case *ssa.FieldAddr:
			v = x.X
			continue
		case *ssa.IndexAddr:
			if m(x.Index) {
				return true
			}
			v = x.X
			continue
		}
		return false
	}
}

// primSeq lists, in dominance/block order, the primitive codec calls of fn; calls inside
// loops are marked with '*' and collapsed.
func primSeq(fn *ssa.Function, prefix string, names map[string]string) []string {
	var out []string
	for _, b := range fn.DomPreorder() {
		for _, ins := range b.Instrs {
			cl, ok := ins.(*ssa.Call)
			if !ok {
				continue
			}
			n := calleeName(&cl.Call)
			if !strings.HasPrefix(n, prefix) {
				continue
			}
			k, ok := names[strings.TrimPrefix(n, prefix)]
			if !ok {
				continue
			}
			// skip calls that sit on reject-only paths
			if blockInCycle(fn, b) {
				k += "*"
				if len(out) > 0 && out[len(out)-1] == k {
					continue
				}
			}
			out = append(out, k)
		}
	}
	return out
}
