package main

import (
	"go/token"
	"strings"

	"golang.org/x/tools/go/ssa"
)

func init() { register("C24", propC24) }

// callBlocks: blocks of fn containing a call matching m.
func callBlocks(fn *ssa.Function, m VM) map[int]bool {
	out := map[int]bool{}
	eachInstr(fn, func(b *ssa.BasicBlock, ins ssa.Instruction) {
		if v, ok := ins.(ssa.Value); ok && m(v) {
			out[b.Index] = true
		}
	})
	return out
}

// postCut: edges leaving the given blocks.
func outEdges(fn *ssa.Function, blocks map[int]bool) map[Edge]bool {
	cut := map[Edge]bool{}
	for bi := range blocks {
		for _, s := range fn.Blocks[bi].Succs {
			cut[Edge{bi, s.Index}] = true
		}
	}
	return cut
}

func propC24(c *Check) {
	c.Explain = "Decides the pairing 'proposal retired => its transactions re-queued' structurally: (1) entries leave Chain.CosiAggregators only in abandonCosiSnapshot (delete) and resetCosiStateForNewRound (map replacement); abandonCosiSnapshot is called only by retryCosiSnapshot, which re-queues s.Transactions of the same snapshot right after, and by cosiHandleChallenge on an external chain (recorded exemption: the proposal belongs to another node, no local aggregator exists there); (2) resetCosiStateForNewRound collects the transactions of *every* aggregator except those in 'owned' (and duplicates), replaces the maps and re-queues the collected list; (3) expireCosiAggregators completes an iteration only by 'not yet a round gap old', 'threshold reached and all responses in', or retryCosiSnapshot; (4) requeueTransactions completes an iteration without CacheQueueTransaction only for a read error, a finalized transaction or a missing body; (5) every non-error exit of prepareAnnouncement that reports 'do not announce' and every exit of cosiSendAnnouncement before the aggregator is installed passes a requeueTransactions call on the snapshot's transactions (storage-error exits halt the node and are exempt; in the duplicate case the unguarded companions are re-queued); the pledging round-0 accept is the only 'announce' exit without checks; (6) AppendCosiAction re-queues a self announcement that the action pool refuses; cosiHandleAction/cosiHook re-queue sanity failures only for the three transient errors of shouldRequeueSelfAnnouncement (recorded policy)."
	c.NotCov = "overlap patterns between concurrent proposals (set reasoning); whether CacheQueueTransaction itself succeeds; the maintainers' policy of dropping proposals that fail checkActionSanity for non-transient reasons."
	c.Floor(12)
	w := c.W
	requeue := func(arg VM) VM { return Call("(*kernel.Node).requeueTransactions", nil, arg) }

	// (1) who removes aggregators
	var removers []string
	for _, fn := range w.ModuleFuncs() {
		eachInstr(fn, func(b *ssa.BasicBlock, ins ssa.Instruction) {
			switch x := ins.(type) {
			case *ssa.Call:
				if calleeName(&x.Call) == "builtin:delete" {
					if _, p := accessPath(x.Call.Args[0]); len(p) > 0 && p[len(p)-1] == "CosiAggregators" {
						removers = append(removers, shortName(fn))
					}
				}
			case *ssa.Store:
				if fa, ok := x.Addr.(*ssa.FieldAddr); ok && fieldIs(fa.X.Type(), fa.Field, "kernel.Chain", "CosiAggregators") {
					removers = append(removers, shortName(fn))
				}
			}
		})
	}
	c.Sites += len(w.ModuleFuncs())
	c.Require(sameSet(dedup(removers), []string{"(*kernel.Chain).abandonCosiSnapshot", "(*kernel.Chain).resetCosiStateForNewRound", "(*kernel.Node).buildChain"}),
		"whowrites", "kernel.Chain.CosiAggregators|removal", "aggregators are removed only by abandonCosiSnapshot and resetCosiStateForNewRound (constructors aside)", "removers: "+strings.Join(dedup(removers), ", "))
	c.WhoCalls("(*kernel.Chain).abandonCosiSnapshot", []string{"(*kernel.Chain).retryCosiSnapshot", "(*kernel.Chain).cosiHandleChallenge"}, "bare abandon only for external proposals (cosiHandleChallenge runs on another node's chain)")
	c.WhoCalls("(*kernel.Chain).resetCosiStateForNewRound", []string{"(*kernel.Chain).prepareAnnouncement"}, "round reset happens only while preparing the announcement that owns the current transactions")
	if f := c.F("(*kernel.Chain).retryCosiSnapshot"); f != nil {
		ab := findCalls(f, "(*kernel.Chain).abandonCosiSnapshot")
		rq := findValues(f, requeue(Path(Param("s"), "Transactions")))
		ok := len(ab) == 1 && len(rq) == 1 && Param("s")(ab[0].Common().Args[1]) && ab[0].Block() == rq[0].(ssa.Instruction).Block() && instrIndex(ab[0]) < instrIndex(rq[0].(ssa.Instruction))
		c.Require(ok, "pairing", shortName(f), "abandonCosiSnapshot(s) is followed unconditionally by requeueTransactions(s.Transactions)", "pairing broken")
	}
	if f := c.F("(*kernel.Chain).cosiHandleChallenge"); f != nil {
		// exemption evidence: the snapshot abandoned is the verifier's (external) snapshot
		okx := true
		for _, ci := range findCalls(f, "(*kernel.Chain).abandonCosiSnapshot") {
			if !PathFrom(func(v ssa.Value) bool { l, ok := v.(*ssa.Lookup); return ok && Path(Param("chain"), "CosiVerifiers")(l.X) }, "Snapshot")(ci.Common().Args[1]) {
				okx = false
			}
		}
		c.Require(okx, "exempt", shortName(f)+"|external verifier snapshot", "the bare abandon in cosiHandleChallenge concerns the verifier's snapshot of an external proposal", "abandon target changed")
	}
	if f := c.F("(*kernel.Chain).checkActionSanity"); f != nil {
		// ExternalChallenge actions are rejected on the node's own chain
		okc := len(findIfs(f, BinEither(token.EQL, Path(Param("chain"), "ChainId"), Path(Param("chain"), "node.IdForNetwork")))) >= 3
		c.Require(okc, "exempt", shortName(f)+"|external actions not on own chain", "external announcement/challenge actions are refused when chain.ChainId == node.IdForNetwork", "sanity gates changed")
	}

	// (2) reset
	if f := c.F("(*kernel.Chain).resetCosiStateForNewRound"); f != nil {
		aggs := Path(Param("chain"), "CosiAggregators")
		outer := c.RangeLoop(f, "aggregators", aggs)
		aggV := func(v ssa.Value) bool { e, ok := v.(*ssa.Extract); return ok && e.Index == 2 }
		inner := c.RangeLoop(f, "agg transactions", PathFrom(aggV, "Snapshot.Transactions"))
		tx := PathFrom(aggV, "Snapshot.Transactions.[]")
		// completing an inner iteration without appending requires keep[tx] or seen[tx]
		if inner != nil && outer != nil {
			c.Require(outer.Blocks[inner.Header.Index], "shape", shortName(f)+"|all aggregators, all transactions", "every transaction of every aggregator is visited", "nesting changed")
			appendBlocks := callBlocks(f, Call("builtin:append", PhiNamed("retry"), Has(tx)))
			cut := outEdges(f, appendBlocks)
			n := 0
			for _, i := range findIfs(f, func(v ssa.Value) bool { l, ok := v.(*ssa.Lookup); return ok && tx(l.Index) }) {
				if inner.Blocks[i.Block().Index] {
					cut[Edge{i.Block().Index, i.Block().Succs[0].Index}] = true // keep[tx] / seen[tx] true => skip
					n++
				}
			}
			ok := n == 2 && len(appendBlocks) == 1 && !reachable(f, inner.Body, cut)[inner.Header.Index]
			c.Require(ok, "loopgate", shortName(f)+"|collect unless owned or seen", "a transaction of a discarded aggregator is left out of the retry list only if it is owned by the current snapshot or already collected", "an iteration can skip a transaction otherwise")
			// keep is filled only from owned
			okk := true
			eachInstr(f, func(b *ssa.BasicBlock, ins ssa.Instruction) {
				if mu, ok := ins.(*ssa.MapUpdate); ok {
					if !(Path(Param("owned"), "[]")(mu.Key) || tx(mu.Key)) {
						okk = false
					}
				}
			})
			c.Require(okk, "provenance", shortName(f)+"|keep = owned", "only transactions of the triggering snapshot are excluded", "exclusion set changed")
		}
		rq := findValues(f, requeue(PhiNamed("retry")))
		var st *ssa.Store
		eachInstr(f, func(b *ssa.BasicBlock, ins ssa.Instruction) {
			if s, ok := ins.(*ssa.Store); ok {
				if fa, ok := s.Addr.(*ssa.FieldAddr); ok && fieldIs(fa.X.Type(), fa.Field, "kernel.Chain", "CosiAggregators") {
					st = s
				}
			}
		})
		ok := len(rq) == 1 && st != nil && outer != nil && outer.Header.Dominates(st.Block()) && st.Block().Dominates(rq[0].(ssa.Instruction).Block())
		c.Require(ok, "pairing", shortName(f)+"|replace then requeue", "after collecting, the aggregator map is replaced and the collected transactions are re-queued on every path", "pairing broken")
	}

	// (3) expiry
	if f := c.F("(*kernel.Chain).expireCosiAggregators"); f != nil {
		lp := c.RangeLoop(f, "aggregators", Path(Param("chain"), "CosiAggregators"))
		aggV := func(v ssa.Value) bool { e, ok := v.(*ssa.Extract); return ok && e.Index == 2 }
		if lp != nil {
			retry := callBlocks(f, Call("(*kernel.Chain).retryCosiSnapshot", Param("chain"), PathFrom(aggV, "Snapshot")))
			cut := outEdges(f, retry)
			young := findIfs(f, Bin(token.LSS, Param("now"), Bin(token.ADD, PathFrom(aggV, "Snapshot.Timestamp"), w.ConstNamed("config", "SnapshotRoundGap"))))
			done := findIfs(f, Bin(token.EQL, Len(PathFrom(aggV, "Responses")), Len(PathFrom(aggV, "Commitments"))))
			enough := findIfs(f, Bin(token.GEQ, Len(PathFrom(aggV, "Commitments")), Call("(*kernel.Node).ConsensusThreshold")))
			ok := len(young) == 1 && len(done) == 1 && len(enough) == 1 && len(retry) == 1
			if ok {
				cut[Edge{young[0].Block().Index, young[0].Block().Succs[0].Index}] = true
				cut[Edge{done[0].Block().Index, done[0].Block().Succs[0].Index}] = true
				ok = !reachable(f, lp.Body, cut)[lp.Header.Index] && dominatedByBranch(f, done[0].Block(), Bin(token.GEQ, Len(PathFrom(aggV, "Commitments")), Call("(*kernel.Node).ConsensusThreshold")), true)
			}
			c.Require(ok, "loopgate", shortName(f)+"|expire or keep", "an aggregator is left alone only if it is younger than a round gap or has reached the threshold with every response in; otherwise retryCosiSnapshot(agg.Snapshot) runs", "an aggregator can be skipped otherwise")
		}
	}
	// (4) requeue
	if f := c.F("(*kernel.Node).requeueTransactions"); f != nil {
		lp := c.RangeLoop(f, "hashes", Param("hashes"))
		if lp != nil {
			q := callBlocks(f, Call("iface:storage.Store.CacheQueueTransaction", nil, PhiNamed("tx")))
			cut := outEdges(f, q)
			rd := Call("iface:storage.Store.ReadTransaction", nil, Path(Param("hashes"), "[]"))
			cg := Call("iface:storage.Store.CacheGetTransaction", nil, Path(Param("hashes"), "[]"))
			skips := []VM{
				BinEither(token.NEQ, Extract(2, rd), ConstNil),
				Bin(token.GTR, Len(Extract(1, rd)), ConstInt(0)),
				BinEither(token.NEQ, Extract(1, cg), ConstNil),
				BinEither(token.EQL, PhiNamed("tx"), ConstNil),
			}
			ok := len(q) == 1
			for _, sk := range skips {
				ifs := findIfs(f, sk)
				if len(ifs) != 1 {
					ok = false
					continue
				}
				cut[Edge{ifs[0].Block().Index, ifs[0].Block().Succs[0].Index}] = true
			}
			ok = ok && !reachable(f, lp.Body, cut)[lp.Header.Index]
			c.Require(ok, "loopgate", shortName(f)+"|queue unless finalized/bodyless/error", "a hash is not re-queued only on a read error, when finalized, or when no body exists", "a hash can be skipped otherwise")
		}
	}

	// (5) announcement exits
	if f := c.F("(*kernel.Chain).prepareAnnouncement"); f != nil {
		s := Path(Param("m"), "Snapshot")
		rq := callBlocks(f, requeue(PathFrom(s, "Transactions")))
		cut := outEdges(f, rq)
		seen := reachable(f, f.Blocks[0], cut)
		n, nBad := 0, 0
		var badSites []string
		for _, r := range allReturns(f) {
			if !ConstBool(false)(retValue(r, 0)) {
				continue
			}
			if isRejectReturn(f, r) {
				continue // storage error: the hook panics (node halts)
			}
			n++
			if seen[r.Block().Index] && !rq[r.Block().Index] {
				nBad++
				badSites = append(badSites, instrPos(w, r))
			}
		}
		c.Require(n >= 8 && nBad == 0, "postgate", shortName(f)+"|deferred => requeued", "every 'do not announce' exit (false, nil) is preceded on all paths by requeueTransactions(s.Transactions)", itoa(nBad)+" exit(s) drop the snapshot's transactions without re-queueing: "+strings.Join(badSites, ", "), badSites...)
		// the unchecked announce exit is the pledging accept
		var trueRets []ssa.Instruction
		for _, r := range allReturns(f) {
			if ConstBool(true)(retValue(r, 0)) {
				trueRets = append(trueRets, r)
			}
		}
		c.Require(len(trueRets) == 2, "shape", shortName(f)+"|announce exits", "two announce exits: pledging round-0 accept and the fully prepared snapshot", "found "+itoa(len(trueRets)))
		// reset only after a successful round transition, with the current transactions as owned
		for _, ci := range findCalls(f, "(*kernel.Chain).resetCosiStateForNewRound") {
			okr := PathFrom(s, "Transactions")(ci.Common().Args[1])
			c.Require(okr, "provenance", shortName(f)+"|owned = current transactions", "the round reset excludes exactly the triggering snapshot's transactions", "owned argument changed")
			c.MustPass(f, Gate{Name: "startNewRoundAndPersist err != nil => requeue+defer", RejectOnTrue: true, Cond: BinEither(token.NEQ, Extract(3, Call("(*kernel.Chain).startNewRoundAndPersist")), ConstNil)}, []ssa.Instruction{ci}, "discarding old-round proposals")
		}
	}
	if f := c.F("(*kernel.Chain).cosiSendAnnouncement"); f != nil {
		var install *ssa.MapUpdate
		eachInstr(f, func(b *ssa.BasicBlock, ins ssa.Instruction) {
			if mu, ok := ins.(*ssa.MapUpdate); ok && Path(Param("chain"), "CosiAggregators")(mu.Map) {
				install = mu
			}
		})
		if install == nil {
			c.Fail("anchor", shortName(f)+"|install", "the aggregator installation", "not found")
		} else {
			pa := Call("(*kernel.Chain).prepareAnnouncement", Param("chain"), Param("m"))
			rq := callBlocks(f, Call("(*kernel.Node).requeueTransactions"))
			cut := outEdges(f, rq)
			cut[Edge{install.Block().Index, -1}] = true
			for _, sx := range install.Block().Succs {
				cut[Edge{install.Block().Index, sx.Index}] = true
			}
			seen := reachable(f, f.Blocks[0], cut)
			var bad []string
			n := 0
			for _, r := range allReturns(f) {
				if r.Block() == install.Block() || install.Block().Dominates(r.Block()) {
					continue // after installation: the aggregator owns the transactions
				}
				// exits right after prepareAnnouncement said no (it re-queued itself) or returned an error
				if dominatedByBranch(f, r.Block(), BinEither(token.NEQ, Extract(1, pa), ConstNil), true) || dominatedByBranch(f, r.Block(), Extract(0, pa), false) || retValue(r, 0) == nil {
					continue
				}
				if v := retValue(r, 0); v != nil && Extract(1, pa)(v) {
					continue
				}
				n++
				if isRejectReturn(f, r) {
					continue // error => hook panics
				}
				if seen[r.Block().Index] && !rq[r.Block().Index] {
					bad = append(bad, instrPos(w, r))
				}
			}
			c.Require(len(bad) == 0 && n >= 1, "postgate", shortName(f)+"|not installed => requeued", "every non-error exit before the aggregator is installed re-queues (the unguarded part of) the snapshot's transactions", "exits without re-queue: "+strings.Join(bad, ", "), bad...)
			// duplicate case: retry list = transactions without an active verifier
			lp := c.RangeLoop(f, "transactions#1/2", Path(Param("m"), "Snapshot.Transactions"))
			if lp != nil {
				c.Accumulator2(f, lp, "retry", Call("builtin:append", PhiNamed("retry"), Has(Path(Param("m"), "Snapshot.Transactions.[]"))), AnyV2())
			}
		}
	}
	// (6) pool refusal
	if f := c.F("(*kernel.Chain).AppendCosiAction"); f != nil {
		offer := Call("~.Offer")
		var fullRets []ssa.Instruction
		for _, r := range allReturns(f) {
			if dominatedByBranch(f, r.Block(), BinEither(token.EQL, offer, ConstNil), false) {
				fullRets = append(fullRets, r)
			}
		}
		rq := callBlocks(f, requeue(Path(Param("m"), "Snapshot.Transactions")))
		okq := len(rq) == 1 && len(fullRets) >= 1
		for bi := range rq {
			if !dominatedByBranch(f, f.Blocks[bi], Bin(token.EQL, Path(Param("m"), "Action"), w.ConstNamed("kernel", "CosiActionSelfEmpty")), true) {
				okq = false
			}
		}
		c.Require(okq, "pairing", shortName(f)+"|pool full => requeue self announcement", "a self announcement refused by the action pool has its transactions re-queued", "pairing broken")
	}
}

// AnyV2 returns a matcher usable as an always-true branch condition placeholder.
func AnyV2() VM { return func(ssa.Value) bool { return true } }
