package main

import (
	"go/token"
	"strings"

	"golang.org/x/tools/go/ssa"
)

func init() { register("C35", propC35) }

func propC35(c *Check) {
	c.Explain = "Decides the structure that makes the local topology a unique increasing cursor: (1) TOPOLOGY and SNAPTOPO keys are written only by writeTopology; its writes lie behind Get(TOPOLOGY(order))==ErrKeyNotFound (else panic), the forward entry is keyed by snap.TopologicalOrder and the reverse index SNAPTOPO(snap.PayloadHash()) stores exactly that key; (2) kernel TopoWrite increments TopoCounter.seq under TopoCounter.Lock() (deferred unlock) before building the record, the record's TopologicalOrder is read from seq after the increment, WriteSnapshot is called under the same lock, and no other kernel function calls WriteSnapshot or stores to seq; (3) readSnapshotsSinceTopology uses a forward iterator over the TOPOLOGY prefix, seeks to graphTopologyKey(offset), bounds the loop by len(snapshots) < count, takes each position from the iterated key and the hash from the payload; the public wrappers reject count > 500; (4) graphTopologyKey/graphTopologyOrder use big-endian encoding (byte order = numeric order); (5) lookup by hash reads the position from the reverse index value."
	c.NotCov = "histories of writes and queries (that seq starts from the last stored position is checked only as 'seeded from LastSnapshot().TopologicalOrder')."
	c.Floor(16)
	w := c.W
	e := w.Effects()
	c.WhoWrites(e, "graphPrefixTopology", []string{"set", "delete"}, []string{"storage.writeTopology"}, "single writer of positions")
	c.WhoWrites(e, "graphPrefixSnapTopology", []string{"set", "delete"}, []string{"storage.writeTopology"}, "single writer of the reverse index")
	c.WhoCalls("storage.writeTopology", []string{"storage.writeSnapshot", "(*storage.BadgerStore).LoadGenesis"}, "positions are assigned only when a snapshot is written")

	if f := c.F("storage.writeTopology"); f != nil {
		sets := findCalls(f, txnSet)
		key := Call("storage.graphTopologyKey", Path(Param("snap"), "TopologicalOrder"))
		gerr := Extract(1, Call(txnGet, Param("txn"), key))
		c.MustPass(f, Gate{Name: "Get(TOPOLOGY(order)) err != ErrKeyNotFound => panic", RejectOnTrue: true, Cond: BinEither(token.NEQ, gerr, errKeyNotFound)}, callInstrs(sets), "writing a position (never reused)")
		ok := len(sets) == 2
		if ok {
			a0, a1 := sets[0].Common().Args, sets[1].Common().Args
			ok = key(a0[1]) && Has(Call("storage.graphSnapshotKey", Path(Param("snap"), "NodeId"), Path(Param("snap"), "RoundNumber")))(a0[2]) &&
				Call("storage.graphSnapTopologyKey", Call("(*common.Snapshot).PayloadHash"))(a1[1]) && a1[2] == a0[1]
		}
		c.Require(ok, "provenance", shortName(f)+"|entries", "TOPOLOGY(order) -> SNAPSHOT key and SNAPTOPO(payload hash) -> that same TOPOLOGY key", "entry operands changed")
		c.ErrorsPropagated(f, txnWriteCalls, "both index writes must succeed")
	}

	if f := c.F("(*kernel.Node).TopoWrite"); f != nil {
		c.EntryLock(f, "TopoCounter", true)
		seqAddr := func(v ssa.Value) bool {
			_, p := accessPath(v)
			return strings.Join(p, ".") == "TopoCounter.seq"
		}
		var inc *ssa.Store
		eachInstr(f, func(b *ssa.BasicBlock, ins ssa.Instruction) {
			if st, ok := ins.(*ssa.Store); ok && seqAddr(st.Addr) {
				if Bin(token.ADD, Path(Param("node"), "TopoCounter.seq"), ConstInt(1))(st.Val) {
					inc = st
				}
			}
		})
		c.Require(inc != nil, "shape", shortName(f)+"|seq += 1", "the sequence is advanced by exactly one per written snapshot", "increment not found")
		ws := findCalls(f, "iface:storage.Store.WriteSnapshot")
		ok := inc != nil && len(ws) == 1 && inc.Block().Dominates(ws[0].Block())
		if ok {
			// the record handed to WriteSnapshot carries seq loaded after the increment
			ok = false
			for _, v := range backSlice(ws[0].Common().Args[0], 6) {
				if ld, isLoad := v.(*ssa.UnOp); isLoad && seqAddr(ld.X) {
					if ld.Block() == inc.Block() && instrIndex(ld) > instrIndex(inc) || inc.Block().Dominates(ld.Block()) && ld.Block() != inc.Block() {
						ok = true
					}
				}
			}
		}
		c.Require(ok, "order", shortName(f)+"|increment before write", "seq is incremented before the record is built and WriteSnapshot receives the incremented value", "write does not use the freshly incremented position")
		// no iteration / loop around the increment
		if inc != nil {
			c.Require(!blockInCycle(f, inc.Block()), "shape", shortName(f)+"|single increment", "the increment is not inside a loop", "increment in a loop")
		}
	}
	c.WhoCalls("iface:storage.Store.WriteSnapshot", []string{"(*kernel.Node).TopoWrite"}, "every snapshot write goes through the sequenced path")
	// who stores to TopologicalSequence.seq
	var writers []string
	for _, fn := range w.ModuleFuncs() {
		eachInstr(fn, func(b *ssa.BasicBlock, ins ssa.Instruction) {
			if st, ok := ins.(*ssa.Store); ok {
				if fa, ok := st.Addr.(*ssa.FieldAddr); ok && fieldIs(fa.X.Type(), fa.Field, "kernel.TopologicalSequence", "seq") {
					writers = append(writers, shortName(fn))
				}
			}
		})
	}
	c.Sites += len(w.ModuleFuncs())
	c.Require(sameSet(dedup(writers), []string{"(*kernel.Node).TopoWrite", "(*kernel.Node).getTopologyCounter"}), "whowrites", "kernel.TopologicalSequence.seq", "seq is stored only by TopoWrite and the constructor getTopologyCounter", "writers: "+strings.Join(writers, ","))
	if f := c.F("(*kernel.Node).getTopologyCounter"); f != nil {
		ok := false
		eachInstr(f, func(b *ssa.BasicBlock, ins ssa.Instruction) {
			if st, isSt := ins.(*ssa.Store); isSt {
				if fa, isFa := st.Addr.(*ssa.FieldAddr); isFa && fieldIs(fa.X.Type(), fa.Field, "kernel.TopologicalSequence", "seq") {
					ok = Path(Extract(0, Call("iface:storage.Store.LastSnapshot")), "TopologicalOrder")(st.Val)
				}
			}
		})
		c.Require(ok, "provenance", shortName(f)+"|seed", "the counter is seeded from the last stored snapshot's position", "seed changed")
	}

	if f := c.F("storage.readSnapshotsSinceTopology"); f != nil {
		seeks := findCalls(f, "(*github.com/dgraph-io/badger/v4.Iterator).Seek")
		ok := len(seeks) == 1 && Call("storage.graphTopologyKey", Param("topologyOffset"))(seeks[0].Common().Args[1])
		c.Require(ok, "provenance", shortName(f)+"|Seek", "listing starts at graphTopologyKey(cursor)", "seek operand changed")
		// forward: no store of true into opts.Reverse
		rev := false
		eachInstr(f, func(b *ssa.BasicBlock, ins ssa.Instruction) {
			if st, isSt := ins.(*ssa.Store); isSt {
				if fa, isFa := st.Addr.(*ssa.FieldAddr); isFa && fieldNameOf(fa.X.Type(), fa.Field) == "Reverse" && !ConstBool(false)(st.Val) {
					rev = true
				}
			}
		})
		c.Require(!rev, "shape", shortName(f)+"|forward iterator", "the iterator runs forward (increasing key order)", "Reverse is set")
		pre := false
		eachInstr(f, func(b *ssa.BasicBlock, ins ssa.Instruction) {
			if st, isSt := ins.(*ssa.Store); isSt {
				if fa, isFa := st.Addr.(*ssa.FieldAddr); isFa && fieldNameOf(fa.X.Type(), fa.Field) == "Prefix" && Has(ConstStr("TOPOLOGY"))(st.Val) {
					pre = true
				}
			}
		})
		c.Require(pre, "shape", shortName(f)+"|prefix", "iteration is confined to the TOPOLOGY prefix", "prefix not set")
		lp := c.ForLoop(f, "iterate", AnyV)
		if lp == nil {
			lp = c.ForOrRangeLoopWithCall(f, "iterate", "(*github.com/dgraph-io/badger/v4.Iterator).Next")
		}
		// bound: the loop continues only while len(snapshots) < count
		okb := false
		if lp != nil {
			for bi := range lp.Blocks {
				b := f.Blocks[bi]
				if iff, isIf := b.Instrs[len(b.Instrs)-1].(*ssa.If); isIf {
					if Bin(token.LSS, Conv(Len(PhiNamed("snapshots"))), Param("count"))(iff.Cond) && !lp.Blocks[b.Succs[1].Index] {
						okb = true
					}
				}
			}
		}
		c.Require(okb, "bound", shortName(f)+"|len < count", "the listing loop exits as soon as len(snapshots) < count fails", "bound test missing or not an exit")
		okp := false
		eachInstr(f, func(b *ssa.BasicBlock, ins ssa.Instruction) {
			if st, isSt := ins.(*ssa.Store); isSt {
				if fa, isFa := st.Addr.(*ssa.FieldAddr); isFa && fieldNameOf(fa.X.Type(), fa.Field) == "TopologicalOrder" {
					okp = Call("storage.graphTopologyOrder", Call("(*github.com/dgraph-io/badger/v4.Item).KeyCopy"))(st.Val)
				}
			}
		})
		c.Require(okp, "provenance", shortName(f)+"|position from key", "each listed snapshot's position is decoded from the iterated TOPOLOGY key", "position source changed")
		okh := false
		eachInstr(f, func(b *ssa.BasicBlock, ins ssa.Instruction) {
			if st, isSt := ins.(*ssa.Store); isSt {
				if fa, isFa := st.Addr.(*ssa.FieldAddr); isFa && fieldNameOf(fa.X.Type(), fa.Field) == "Hash" {
					okh = Call("(*common.Snapshot).PayloadHash")(st.Val)
				}
			}
		})
		c.Require(okh, "provenance", shortName(f)+"|hash from payload", "each listed snapshot's hash is its payload hash", "hash source changed")
	}
	for _, n := range []string{"(*storage.BadgerStore).ReadSnapshotsSinceTopology", "(*storage.BadgerStore).ReadSnapshotWithTransactionsSinceTopology"} {
		if f := c.F(n); f != nil {
			c.MustPass(f, Gate{Name: "count > 500 => reject", RejectOnTrue: true, Cond: Bin(token.GTR, Param("count"), ConstInt(500))}, acceptReturns(f), "any listing")
		}
	}
	if f := c.F("storage.graphTopologyKey"); f != nil {
		c.Require(len(findCalls(f, "(encoding/binary.bigEndian).AppendUint64")) == 1, "shape", shortName(f)+"|big endian", "positions are encoded big-endian so byte order equals numeric order", "encoding changed")
	}
	if f := c.F("storage.graphTopologyOrder"); f != nil {
		c.Require(len(findCalls(f, "(encoding/binary.bigEndian).Uint64")) == 1, "shape", shortName(f)+"|big endian", "positions are decoded big-endian", "decoding changed")
	}
	if f := c.F("storage.readSnapshotWithTopo"); f != nil {
		topo := Extract(0, Call("(*github.com/dgraph-io/badger/v4.Item).ValueCopy", Extract(0, Call(txnGet, Param("txn"), Call("storage.graphSnapTopologyKey", Param("hash"))))))
		okp := false
		eachInstr(f, func(b *ssa.BasicBlock, ins ssa.Instruction) {
			if st, isSt := ins.(*ssa.Store); isSt {
				if fa, isFa := st.Addr.(*ssa.FieldAddr); isFa && fieldNameOf(fa.X.Type(), fa.Field) == "TopologicalOrder" {
					okp = Call("storage.graphTopologyOrder", topo)(st.Val)
				}
			}
		})
		c.Require(okp, "provenance", shortName(f)+"|position by hash", "lookup by hash decodes the position from the reverse-index value SNAPTOPO(hash)", "position source changed")
	}
}

func instrIndex(ins ssa.Instruction) int {
	for i, x := range ins.Block().Instrs {
		if x == ins {
			return i
		}
	}
	return -1
}

func dedup(xs []string) []string {
	m := map[string]bool{}
	var out []string
	for _, x := range xs {
		if !m[x] {
			m[x] = true
			out = append(out, x)
		}
	}
	return out
}
