package main

import (
	"bufio"
	"encoding/json"
	"fmt"
	"os"
	"path/filepath"
	"sort"
	"strings"
	"time"

	"golang.org/x/tools/go/ssa"
)

// An Obligation is one rule instance: rule + construct, never a line number.
type Obligation struct {
	Key    string   `json:"key"`  // stable identity: rule|function|construct
	Rule   string   `json:"rule"` // engine rule applied
	Desc   string   `json:"desc"` // what is required
	Status string   `json:"status"`
	Sites  []string `json:"sites,omitempty"` // file:line of matched constructs (diagnostics only)
	Detail string   `json:"detail,omitempty"`
}

const (
	stOK        = "ok"
	stViolation = "violation"
	stUndecided = "undecided"
)

type Check struct {
	ID       string
	Tier     string
	W        *World
	Obls     []*Obligation
	keys     map[string]bool
	Funcs    map[string]bool // functions analysed
	Sites    int             // constructs examined (instructions / call sites / branches)
	Explain  string
	NotCov   string
	Trusted  []string
	floor    int
	Extra    map[string]any
	Variants []string
	loopSeen map[*ssa.BasicBlock]bool
	Anchors  map[string]bool // functions the rules anchor on (resolved through F)
}

func (c *Check) add(o *Obligation) *Obligation {
	if c.keys == nil {
		c.keys = map[string]bool{}
	}
	k := o.Key
	for i := 2; c.keys[k]; i++ {
		k = fmt.Sprintf("%s#%d", o.Key, i)
	}
	o.Key = k
	c.keys[k] = true
	c.Obls = append(c.Obls, o)
	return o
}

func (c *Check) OK(rule, key, desc string, sites ...string) {
	c.add(&Obligation{Key: rule + "|" + key, Rule: rule, Desc: desc, Status: stOK, Sites: sites})
}

func (c *Check) Fail(rule, key, desc, detail string, sites ...string) {
	c.add(&Obligation{Key: rule + "|" + key, Rule: rule, Desc: desc, Status: stViolation, Detail: detail, Sites: sites})
}

func (c *Check) Undecided(rule, key, desc, detail string, sites ...string) {
	c.add(&Obligation{Key: rule + "|" + key, Rule: rule, Desc: desc, Status: stUndecided, Detail: detail, Sites: sites})
}

// Require records ok/violation by a boolean.
func (c *Check) Require(ok bool, rule, key, desc, detail string, sites ...string) bool {
	if ok {
		c.OK(rule, key, desc, sites...)
	} else {
		c.Fail(rule, key, desc, detail, sites...)
	}
	return ok
}

// F resolves a function by short name; a missing anchor is a violation of the
// property's checkability (never silently skipped).
func (c *Check) F(name string) *ssa.Function {
	fn := c.W.Fn(name)
	if fn == nil || len(fn.Blocks) == 0 {
		c.Undecided("anchor", name, "anchor function must exist with a body", "function "+name+" not found in /repo: the rule instance cannot be located")
		return nil
	}
	if c.Funcs == nil {
		c.Funcs = map[string]bool{}
	}
	c.Funcs[name] = true
	if c.Anchors == nil {
		c.Anchors = map[string]bool{}
	}
	c.Anchors[name] = true
	return fn
}

func (c *Check) Floor(n int) { c.floor = n }

type knownFinding struct {
	Prop string
	Key  string
	Text string
}

func loadKnownFindings(path string) (findings []knownFinding, fixed []string) {
	f, err := os.Open(path)
	if err != nil {
		return nil, nil
	}
	defer f.Close()
	sc := bufio.NewScanner(f)
	for sc.Scan() {
		line := strings.TrimSpace(sc.Text())
		if line == "" || strings.HasPrefix(line, "#") {
			continue
		}
		if strings.HasPrefix(line, "fixed:") {
			fixed = append(fixed, line)
			continue
		}
		if strings.HasPrefix(line, "finding:") {
			// finding: property=C21 key=<key> :: text
			rest := strings.TrimSpace(strings.TrimPrefix(line, "finding:"))
			var kf knownFinding
			parts := strings.SplitN(rest, " :: ", 2)
			if len(parts) == 2 {
				kf.Text = parts[1]
			}
			for _, fld := range strings.Fields(parts[0]) {
				if strings.HasPrefix(fld, "property=") {
					kf.Prop = strings.TrimPrefix(fld, "property=")
				}
				if strings.HasPrefix(fld, "key=") {
					kf.Key = strings.TrimPrefix(fld, "key=")
				}
			}
			if kf.Prop != "" && kf.Key != "" {
				findings = append(findings, kf)
			}
		}
	}
	return
}

func verifDir() string {
	if d := os.Getenv("MIXVET_VERIF"); d != "" {
		return d
	}
	return "/verif"
}

// Finish writes evidence, prints verdict lines and returns the exit code.
func (c *Check) Finish(start time.Time, loadErr error) int {
	vd := verifDir()
	evdir := filepath.Join(vd, "evidence")
	if d := os.Getenv("MIXVET_EVIDENCE"); d != "" {
		evdir = d
	}
	os.MkdirAll(filepath.Join(evdir, "violations"), 0o755)
	known, _ := loadKnownFindings(filepath.Join(vd, "known_findings.txt"))
	if os.Getenv("MIXVET_NO_KNOWN") != "" {
		known = nil
	}

	if loadErr != nil {
		c.Undecided("load", "repo", "the repository must load and type-check", loadErr.Error())
	}
	if c.floor > 0 && len(c.Obls) < c.floor && loadErr == nil {
		c.Undecided("floor", c.ID, fmt.Sprintf("at least %d rule instances must be located", c.floor),
			fmt.Sprintf("only %d instances were located; a rule that matches nothing passes vacuously", len(c.Obls)))
	}
	nOK, nViol, nKnown := 0, 0, 0
	var viols []*Obligation
	distinct := map[string]bool{}
	for _, o := range c.Obls {
		switch o.Status {
		case stOK:
			nOK++
			if len(o.Sites) > 0 {
				distinct[o.Key] = true
			}
		default:
			isKnown := false
			for _, k := range known {
				if k.Prop == c.ID && k.Key == o.Key {
					isKnown = true
					fmt.Printf("KNOWN-FINDING: property=%s %s (%s)\n", c.ID, k.Text, o.Key)
				}
			}
			if isKnown {
				nKnown++
				continue
			}
			nViol++
			viols = append(viols, o)
		}
	}
	// samples: first few obligations written out
	var samples []any
	for i, o := range c.Obls {
		if i >= 6 {
			break
		}
		samples = append(samples, o)
	}
	fl := make([]string, 0, len(c.Funcs))
	for f := range c.Funcs {
		fl = append(fl, f)
	}
	sort.Strings(fl)
	cov := map[string]any{
		"explanation":         c.Explain + " NOT COVERED: " + c.NotCov,
		"obligations":         len(c.Obls),
		"discharged":          nOK,
		"known_findings":      nKnown,
		"evaluations":         c.Sites,
		"distinct_nontrivial": len(distinct),
		"rule":                "one obligation per rule instance (rule+function+construct); evaluations = SSA/AST constructs examined; distinct_nontrivial = obligations that matched at least one concrete site in /repo",
		"samples":             samples,
		"functions_analysed":  fl,
		"checker_cmd":         fmt.Sprintf("/verif/run.sh %s %s", c.ID, c.Tier),
		"trusted_base":        append([]string{"go/types + go/ssa (x/tools v0.29.0) model of the program", "Go memory/mutex semantics and Badger transaction atomicity"}, c.Trusted...),
		"exhaustive":          false,
	}
	if c.W != nil {
		cov["packages_loaded"] = c.W.AllPkgs
		cov["module_packages"] = len(c.W.Pkgs)
		cov["module_functions"] = len(c.W.modFns)
	}
	for k, v := range c.Extra {
		cov[k] = v
	}
	if len(c.Variants) > 0 {
		cov["variants_fired"] = c.Variants
	}
	var all []any
	for _, o := range c.Obls {
		all = append(all, o)
	}
	cov["all_obligations"] = all
	seed := 0
	fmt.Sscan(os.Getenv("VERIF_SEED"), &seed)
	ev := map[string]any{
		"property_id": c.ID,
		"tier":        c.Tier,
		"seed":        seed,
		"level":       "other",
		"coverage":    cov,
		"assumptions": []string{
			"structural clauses only: each decided clause is a necessary condition of the property, not the property itself",
			"callee resolution by go/types objects; reviewed tables under /verif/tables are trusted as written",
		},
		"wall_s":     time.Since(start).Seconds(),
		"violations": nViol,
	}
	b, _ := json.MarshalIndent(ev, "", " ")
	if err := os.WriteFile(filepath.Join(evdir, c.ID+".json"), b, 0o644); err != nil {
		fmt.Fprintf(os.Stderr, "cannot write evidence: %v\n", err)
		return 2
	}
	fmt.Printf("%s tier=%s obligations=%d ok=%d violations=%d known=%d sites=%d functions=%d wall=%.1fs\n",
		c.ID, c.Tier, len(c.Obls), nOK, nViol, nKnown, c.Sites, len(c.Funcs), time.Since(start).Seconds())
	if nViol == 0 {
		return 0
	}
	for i, o := range viols {
		rp := filepath.Join(evdir, "violations", fmt.Sprintf("%s-%d.json", c.ID, i+1))
		rb, _ := json.MarshalIndent(map[string]any{"property": c.ID, "obligation": o}, "", " ")
		os.WriteFile(rp, rb, 0o644)
		fmt.Printf("  [%s] %s: %s\n      required: %s\n      found: %s\n      at: %s\n", o.Status, o.Rule, o.Key, o.Desc, o.Detail, strings.Join(o.Sites, ", "))
		fmt.Printf("VIOLATION property=%s replay=%s\n", c.ID, rp)
	}
	return 1
}
