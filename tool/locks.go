package main

import (
	"fmt"
	"strings"

	"golang.org/x/tools/go/ssa"
)

// E3 lockset (entry-lock form): the method takes <recv>.<mutexField>.Lock() in its entry
// block with a deferred Unlock, before any other call.

func (c *Check) EntryLock(fn *ssa.Function, mutexPath string, exclusive bool) bool {
	if fn == nil {
		return false
	}
	lock, unlock := "(*sync.RWMutex).Lock", "(*sync.RWMutex).Unlock"
	if !exclusive {
		lock, unlock = "(*sync.RWMutex).RLock", "(*sync.RWMutex).RUnlock"
	}
	key := shortName(fn) + "|" + mutexPath
	desc := fmt.Sprintf("%s holds %s (%s) for its whole body: Lock is the first call and Unlock is deferred", shortName(fn), mutexPath, lock)
	b := fn.Blocks[0]
	state := 0
	var site string
	for _, ins := range b.Instrs {
		ci, ok := ins.(ssa.CallInstruction)
		if !ok {
			continue
		}
		n := calleeName(ci.Common())
		if n == "(*sync.Mutex).Lock" || n == "(*sync.Mutex).Unlock" {
			n = map[string]string{"(*sync.Mutex).Lock": "(*sync.RWMutex).Lock", "(*sync.Mutex).Unlock": "(*sync.RWMutex).Unlock"}[n]
		}
		switch state {
		case 0:
			if _, isCall := ins.(*ssa.Call); isCall && n == lock && Path(nil, mutexPath)(ci.Common().Args[0]) {
				state = 1
				site = instrPos(c.W, ins)
				continue
			}
			if strings.HasPrefix(n, "logger.") {
				continue // logging before the critical section is harmless
			}
			c.Fail("entrylock", key, desc, "the first call in the method is "+n+", not the lock acquisition", instrPos(c.W, ins))
			return false
		case 1:
			if _, isDefer := ins.(*ssa.Defer); isDefer && n == unlock && Path(nil, mutexPath)(ci.Common().Args[0]) {
				state = 2
				continue
			}
			c.Fail("entrylock", key, desc, "the lock acquisition is not immediately followed by a deferred unlock", instrPos(c.W, ins))
			return false
		}
		if state == 2 {
			break
		}
	}
	c.Sites += len(b.Instrs)
	if state != 2 {
		c.Fail("entrylock", key, desc, "lock/defer-unlock pair not found in the entry block", c.W.Pos(fn.Pos()))
		return false
	}
	// no explicit early Unlock elsewhere
	bad := false
	eachInstr(fn, func(bb *ssa.BasicBlock, ins ssa.Instruction) {
		if cl, ok := ins.(*ssa.Call); ok {
			n := calleeName(&cl.Call)
			if (n == unlock || n == "(*sync.Mutex).Unlock") && Path(nil, mutexPath)(cl.Call.Args[0]) {
				bad = true
			}
		}
	})
	if bad {
		c.Fail("entrylock", key, desc, "an explicit Unlock releases the mutex before the method returns", site)
		return false
	}
	c.OK("entrylock", key, desc, site)
	return true
}
