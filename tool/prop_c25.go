package main

import (
	"fmt"
	"go/constant"
	"go/token"

	"golang.org/x/tools/go/ssa"
)

func init() { register("C25", propC25) }

func propC25(c *Check) {
	c.Explain = "Decides the exact-sum and share clauses of mint construction only: in buildUniversalMintTransaction (1) the mint input carries the batch amount returned by checkUniversalMintPossibility; (2) every kernel-node output of amount m.Work is paired, in the same iteration, with total = total.Add(m.Work) (accumulator shape: no output without accounting); (3) the custodian output of amount safe = amount.Div(10).Mul(4) is followed by total = total.Add(safe); (4) the last output's amount is amount.Sub(total) for that final total, so the outputs sum to the batch amount by construction, and there are exactly these three output sites; (5) the kernel share handed to distributeKernelMintByWorks is amount.Div(10).Mul(5) (five tenths, rounded down per tenth); (6) both 'total > amount => panic' assertions remain; (7) mintMultiBatchesSize is the accumulator of mintBatchSize(i) over i = old+1 .. batch (inclusive), panicking when old >= batch; (8) distributeKernelMintByWorks: the per-node clamp of the work against avg*7 / avg / avg/7 is interpreted from its SSA fragment with an exact-integer model and is non-decreasing in the raw work for avg 1..40, w 0..45*avg+10, and the final share is work.Ration(totalW).Product(base) with one totalW and base for all nodes; (9) mintBatchSize: the pool is seeded with MintPool, every elapsed year (i = 0 .. batch/D - 1) performs pool = pool.Sub(MintYearPercent.Product(pool)), the result is MintYearPercent.Product(pool).Div(D) with the same constant D, MintYearPercent = NewInteger(a).Ration(NewInteger(b)) with 0 <= a <= b and MintPool > 0 are stored only by the package initialiser: hence batch sizes never increase and D batches of a year spend at most that year's reduction of the pool (telescoping bound by MintPool); (10) poolSizeUniversal, the reported remaining pool, replays the same schedule: same pool accumulator, mint = mint.Add(MintYearPercent.Product(pool)) every elapsed year, and every year/day constant equal to the year length of mintBatchSize."
	c.NotCov = "NOT DECIDED (numeric facts over all batches / work vectors): positivity of every share; monotone non-increase of batch sizes and the pool bound are decided only through the shape of mintBatchSize (rule 9), assuming RationalNumber.Product and Integer.Div are monotone in their first argument; work-monotonicity is decided for the clamp (finite evaluation, avg 1..40) and the order-preserving shape of the final share, not for the big-integer rounding of Ration/Product."
	c.Floor(18)
	f := c.F("(*kernel.Node).buildUniversalMintTransaction")
	if f != nil {
		poss := Call("(*kernel.Node).checkUniversalMintPossibility", Param("node"), Param("timestamp"), Param("validateOnly"))
		amount := Extract(1, poss)
		tenth := func(k int64) VM {
			return Call("(common.Integer).Mul", Call("(common.Integer).Div", amount, ConstInt(10)), ConstInt(k))
		}
		ins := findCalls(f, "(*common.Transaction).AddUniversalMintInput")
		c.Require(len(ins) == 1 && Conv(Extract(0, poss))(ins[0].Common().Args[1]) && amount(ins[0].Common().Args[2]), "provenance", shortName(f)+"|mint input", "the mint input is (batch, amount) as returned by checkUniversalMintPossibility", "mint input operands changed")
		dist := Call("(*kernel.Node).distributeKernelMintByWorks", Param("node"), nil, tenth(5), Param("timestamp"))
		c.Require(len(findValues(f, dist)) == 1, "shape", shortName(f)+"|kernel share", "the kernel-node share is amount.Div(10).Mul(5)", "share expression changed")
		mints := Extract(0, dist)
		lp := c.RangeLoop(f, "mints", mints)
		work := PathFrom(mints, "[].Work")
		c.Accumulator(f, lp, "total", func(self VM) VM { return Call("(common.Integer).Add", self, work) }, "total = total.Add(m.Work)")
		outs := findCalls(f, "(*common.Transaction).AddScriptOutput")
		c.Require(len(outs) == 3, "shape", shortName(f)+"|three output sites", "outputs are added at exactly three sites: per kernel node, custodian, remainder", "found "+itoa(len(outs)))
		var loopOut, safeOut, lastOut ssa.CallInstruction
		for _, o := range outs {
			amt := o.Common().Args[3]
			switch {
			case lp != nil && lp.Blocks[o.Block().Index]:
				loopOut = o
			case tenth(4)(amt):
				safeOut = o
			default:
				lastOut = o
			}
		}
		ok := loopOut != nil && work(loopOut.Common().Args[3])
		if ok {
			// the Add of the same amount is in the same block after the output
			ok = false
			for _, i := range loopOut.Block().Instrs {
				if cl, isCall := i.(*ssa.Call); isCall && Call("(common.Integer).Add", PhiNamed("total"), work)(cl) {
					ok = true
				}
			}
		}
		c.Require(ok, "pairing", shortName(f)+"|kernel output ~ total", "each kernel-node output of m.Work is accounted by total.Add(m.Work) in the same iteration", "output and accounting are no longer paired")
		totalAfterLoop := PhiNamed("total")
		sum2 := Call("(common.Integer).Add", totalAfterLoop, tenth(4))
		ok2 := safeOut != nil && len(findValues(f, sum2)) == 1
		c.Require(ok2, "pairing", shortName(f)+"|custodian output ~ total", "the custodian output amount.Div(10).Mul(4) is accounted by total.Add(safe)", "custodian share or its accounting changed")
		ok3 := lastOut != nil && Call("(common.Integer).Sub", amount, sum2)(lastOut.Common().Args[3])
		c.Require(ok3, "exact-sum", shortName(f)+"|remainder output", "the last output is amount.Sub(total) for the total of all previous outputs, so outputs sum exactly to the batch amount", "remainder expression changed")
		if ok2 && ok3 && safeOut != nil && lastOut != nil {
			c.Require(safeOut.Block().Dominates(lastOut.Block()) && lp != nil && lp.Header.Dominates(safeOut.Block()), "order", shortName(f)+"|output order", "kernel outputs, then custodian, then remainder", "order changed")
		}
		pan := findIfs(f, Bin(token.GTR, Call("(common.Integer).Cmp", nil, amount), ConstInt(0)))
		np := 0
		for _, i := range pan {
			sb := i.Block().Succs[0]
			if _, isP := sb.Instrs[len(sb.Instrs)-1].(*ssa.Panic); isP {
				np++
			}
		}
		c.Require(np == 2, "shape", shortName(f)+"|overspend assertions", "total.Cmp(amount) > 0 panics after the kernel outputs and after the custodian output", "found "+itoa(np))
		var txRets []ssa.Instruction
		for _, r := range allReturns(f) {
			if !ConstNil(retValue(r, 0)) {
				txRets = append(txRets, r)
			}
		}
		c.MustPass(f, Gate{Name: "amount.Sign() <= 0 => nil", RejectOnTrue: true, Cond: Bin(token.LEQ, Call("(common.Integer).Sign", amount), ConstInt(0))}, txRets, "building a mint transaction")
	}
	if g := c.F("kernel.mintMultiBatchesSize"); g != nil {
		lp := c.ForLoop(g, "batches", Bin(token.LEQ, PhiNamed("i"), Param("batch")))
		c.Accumulator(g, lp, "amount", func(self VM) VM { return Call("(common.Integer).Add", self, Call("kernel.mintBatchSize", PhiNamed("i"))) }, "amount = amount.Add(mintBatchSize(i))")
		oki := false
		if lp != nil {
			for _, ins := range lp.Header.Instrs {
				if p, ok := ins.(*ssa.Phi); ok && phiIs(p, "i") {
					oki = true
					for k, ed := range p.Edges {
						if lp.Header.Dominates(lp.Header.Preds[k]) {
							oki = oki && Bin(token.ADD, Is(p), ConstInt(1))(ed)
						} else {
							oki = oki && Bin(token.ADD, Param("old"), ConstInt(1))(ed)
						}
					}
				}
			}
		}
		c.Require(oki, "shape", shortName(g)+"|range old+1..batch", "i runs from old+1 to batch inclusive in steps of one", "loop bounds changed")
		c.MustPass(g, Gate{Name: "old >= batch => panic", RejectOnTrue: true, Cond: Bin(token.GEQ, Param("old"), Param("batch"))}, acceptReturns(g), "returning a multi-batch amount")
	}
	// ---- schedule shape of mintBatchSize: with p = MintYearPercent = a/b, 0 <= a <= b, and D the one
	// year-length constant, pool_{k+1} = pool_k - floor(p*pool_k) lies in [0, pool_k]; the batch
	// size floor(floor(p*pool_k)/D) with k = batch/D is therefore non-increasing in batch, and D
	// batches of year k spend at most floor(p*pool_k) = pool_k - pool_{k+1}, which telescopes to
	// at most MintPool. Each premise of that argument is a shape read from the SSA below.
	if g := c.F("kernel.mintBatchSize"); g != nil {
		percent := Global("MintYearPercent")
		var yearDiv, dayDiv int64 = -1, -2
		constOf := func(v ssa.Value) int64 {
			if k, ok := v.(*ssa.Const); ok && k.Value != nil && k.Value.Kind() == constant.Int {
				if x, exact := constant.Int64Val(k.Value); exact {
					return x
				}
			}
			return -3
		}
		years := func(v ssa.Value) bool {
			for {
				if cv, ok := v.(*ssa.Convert); ok {
					v = cv.X
					continue
				}
				break
			}
			b, ok := v.(*ssa.BinOp)
			if !ok || b.Op != token.QUO || !Param("batch")(b.X) {
				return false
			}
			yearDiv = constOf(b.Y)
			return yearDiv > 0
		}
		lp := c.ForLoop(g, "years", Bin(token.LSS, PhiNamed("i"), years))
		c.Accumulator(g, lp, "pool", func(self VM) VM {
			return Call("(common.Integer).Sub", self, Call("(common.RationalNumber).Product", percent, self))
		}, "pool = pool.Sub(MintYearPercent.Product(pool))")
		okInit, okStep := false, false
		var poolPhi *ssa.Phi
		if lp != nil {
			for _, ins := range lp.Header.Instrs {
				p, ok := ins.(*ssa.Phi)
				if !ok {
					continue
				}
				for k, ed := range p.Edges {
					entry := !lp.Header.Dominates(lp.Header.Preds[k])
					switch {
					case phiIs(p, "pool") && entry:
						poolPhi = p
						okInit = Global("MintPool")(ed)
					case phiIs(p, "i") && entry:
						okStep = ConstInt(0)(ed)
					case phiIs(p, "i"):
						okStep = okStep && Bin(token.ADD, Is(p), ConstInt(1))(ed)
					}
				}
			}
		}
		c.Require(okInit, "shape", shortName(g)+"|pool starts at MintPool", "the running pool is seeded with MintPool", "seed changed")
		c.Require(okStep, "shape", shortName(g)+"|one reduction per elapsed year", "the year index runs 0, 1, .. batch/D - 1 in steps of one (the number of reductions is non-decreasing in batch)", "loop counter changed")
		okRet := poolPhi != nil
		rets := allReturns(g)
		for _, r := range rets {
			v := retValue(r, 0)
			cl, ok := v.(*ssa.Call)
			if !ok || !Call("(common.Integer).Div", Call("(common.RationalNumber).Product", percent, Is(poolPhi)), AnyV)(cl) {
				okRet = false
				continue
			}
			dayDiv = constOf(cl.Call.Args[1])
		}
		c.Require(okRet && len(rets) == 1, "shape", shortName(g)+"|batch = percent*pool/D", "the batch size is MintYearPercent.Product(pool).Div(D) of the pool left after the reductions (monotone in the pool)", "return expression changed")
		c.Require(yearDiv > 0 && yearDiv == dayDiv, "agreement", shortName(g)+"|year length == daily divisor", "the constant dividing the batch number into years equals the constant dividing the yearly amount into batches (D batches spend at most one yearly amount, so the cumulative total telescopes below the pool)", fmt.Sprintf("year length %d, daily divisor %d", yearDiv, dayDiv))
		// sibling: poolSizeUniversal (the reported remaining pool) replays the same schedule
		if h := c.F("kernel.poolSizeUniversal"); h != nil {
			consts, nconst := true, 0
			eachInstr(h, func(b *ssa.BasicBlock, ins ssa.Instruction) {
				switch x := ins.(type) {
				case *ssa.BinOp:
					if (x.Op == token.QUO || x.Op == token.REM) && Param("batch")(x.X) {
						nconst++
						consts = consts && constOf(x.Y) == yearDiv
					}
				case *ssa.Call:
					if Call("(common.Integer).Div", AnyV, AnyV)(x) {
						nconst++
						consts = consts && constOf(x.Call.Args[1]) == yearDiv
					}
				}
			})
			hl := c.ForLoop(h, "years", Bin(token.LSS, PhiNamed("i"), Bin(token.QUO, Param("batch"), AnyV)))
			year := func(self VM) VM { return Call("(common.RationalNumber).Product", percent, self) }
			c.Accumulator(h, hl, "pool", func(self VM) VM { return Call("(common.Integer).Sub", self, year(self)) }, "pool = pool.Sub(MintYearPercent.Product(pool))")
			c.Accumulator(h, hl, "mint", func(self VM) VM { return Call("(common.Integer).Add", self, year(PhiNamed("pool"))) }, "mint = mint.Add(MintYearPercent.Product(pool))")
			c.Require(consts && nconst >= 3, "agreement", shortName(h)+"|same year length as mintBatchSize", "every year/day constant of poolSizeUniversal (batch/D, batch%D, year.Div(D)) equals the year length of mintBatchSize, so the reported pool follows the schedule that is minted", fmt.Sprintf("constants agree=%v sites=%d (mintBatchSize uses %d)", consts, nconst, yearDiv))
		}
		// the constants: MintYearPercent = NewInteger(a).Ration(NewInteger(b)) with 0 <= a <= b, stored
		// only by the package initialiser; MintPool likewise stored only there.
		okPct, stores := false, 0
		for _, fn := range append(c.W.ModuleFuncs(), g.Pkg.Func("init")) {
			if fn == nil {
				continue
			}
			eachInstr(fn, func(b *ssa.BasicBlock, ins ssa.Instruction) {
				st, ok := ins.(*ssa.Store)
				if !ok {
					return
				}
				gl, ok := st.Addr.(*ssa.Global)
				if !ok || gl.Pkg != g.Pkg || (gl.Name() != "MintYearPercent" && gl.Name() != "MintPool") {
					return
				}
				c.Sites++
				if fn != g.Pkg.Func("init") {
					stores += 100
					return
				}
				stores++
				if gl.Name() == "MintYearPercent" {
					if cl, ok := st.Val.(*ssa.Call); ok && Call("(common.Integer).Ration", Call("common.NewInteger", AnyV), Call("common.NewInteger", AnyV))(cl) {
						a := constOf(cl.Call.Args[0].(*ssa.Call).Call.Args[0])
						bb := constOf(cl.Call.Args[1].(*ssa.Call).Call.Args[0])
						okPct = a >= 0 && bb > 0 && a <= bb
					}
				} else if cl, ok := st.Val.(*ssa.Call); !ok || !Call("common.NewInteger", AnyV)(cl) || constOf(cl.Call.Args[0]) <= 0 {
					stores += 100
				}
			})
		}
		c.Require(okPct && stores == 2, "constants", "kernel.init|MintYearPercent in [0,1], MintPool > 0, written once", "MintYearPercent is NewInteger(a).Ration(NewInteger(b)) with 0 <= a <= b and MintPool a positive NewInteger, each stored only by the package initialiser (so every yearly reduction keeps the pool in [0, previous pool])", fmt.Sprintf("okPercent=%v stores=%d", okPct, stores))
	}
	// ---- work-monotonicity of the normalisation in distributeKernelMintByWorks: the clamp
	// N(w; avg) applied to each node's work is interpreted (SSA fragment of one loop iteration,
	// exact-integer model of common.Integer) for avg in 1..40 and every w in 0..45*avg+10, and must
	// be non-decreasing in w; the final share is Ration(N(w), totalW).Product(base) with totalW and
	// base the same for every node, which preserves the order.
	if g := c.F("(*kernel.Node).distributeKernelMintByWorks"); g != nil {
		avgM := Call("(common.Integer).Div", Call("(common.Integer).Sub"), AnyV)
		mintsV := Extract(0, Call("(*kernel.Node).sortMintWorks"))
		_ = mintsV
		// the normalisation loop: the range loop whose body compares m.Work with avg*7
		var norm *Loop
		var cell ssa.Value
		for _, h := range g.Blocks {
			if h.Comment != "rangeindex.loop" || len(h.Succs) != 2 {
				continue
			}
			blocks := naturalLoop(g, h)
			hasUpperCmp := false
			for bi := range blocks {
				for _, ins := range g.Blocks[bi].Instrs {
					if cl, ok := ins.(*ssa.Call); ok && Call("(common.Integer).Cmp", AnyV, Call("(common.Integer).Mul", avgM, ConstInt(7)))(cl) {
						hasUpperCmp = true
					}
				}
			}
			if !hasUpperCmp {
				continue
			}
			var firstLoadAddr ssa.Value
			for _, ins := range h.Succs[0].Instrs {
				if u, ok := ins.(*ssa.UnOp); ok && u.Op == token.MUL && firstLoadAddr == nil {
					if _, p := accessPath(u.X); len(p) > 0 && p[len(p)-1] == "Work" {
						firstLoadAddr = u.X
					}
				}
			}
			if firstLoadAddr != nil {
				norm = &Loop{Name: "normalise", Header: h, Body: h.Succs[0], Blocks: blocks}
				cell = firstLoadAddr
			}
		}
		if norm == nil {
			c.Undecided("anchor", shortName(g)+"|normalisation loop", "the loop that clamps m.Work against avg*7 / avg / avg/7", "not found (cannot decide work-monotonicity)", c.W.Pos(g.Pos()))
		} else {
			key := memKey(cell)
			leaves := []leaf{{avgM, "avg"}}
			total, bad, evalErr := 0, "", ""
			for a := int64(1); a <= 40 && evalErr == "" && bad == ""; a++ {
				prev := int64(-1)
				prevW := int64(0)
				for wv := int64(0); wv <= 45*a+10; wv++ {
					it := newInterp(leaves, map[string]int64{"avg": a})
					it.mem = map[string]any{key: wv}
					first := true
					_, err := it.run(norm.Body, norm.Header, func(b *ssa.BasicBlock) bool {
						if first {
							first = false
							return false
						}
						return b == norm.Header
					})
					if err != nil {
						evalErr = err.Error()
						break
					}
					nv, ok := it.mem[key].(int64)
					if !ok {
						evalErr = "normalised work is not an evaluated integer"
						break
					}
					total++
					if nv < prev {
						bad = fmt.Sprintf("avg=%d: work %d is normalised to %d but the smaller work %d to %d", a, wv, nv, prevW, prev)
						break
					}
					prev, prevW = nv, wv
				}
			}
			c.Sites += total
			if evalErr != "" {
				c.Undecided("finite-eval", shortName(g)+"|normalised work is monotone", "the clamp fragment is interpretable", evalErr, c.W.Pos(g.Pos()))
			} else {
				c.Require(bad == "", "finite-eval", shortName(g)+"|normalised work is monotone", "for avg in 1..40 and all w in 0..45*avg+10 the clamped work is non-decreasing in the raw work (a node with more work never gets a smaller weight)", bad+fmt.Sprintf(" (%d valuations)", total), c.W.Pos(g.Pos()))
			}
			// final share: m.Work = m.Work.Ration(totalW).Product(base), one totalW / base for all nodes
			tot := PhiNamed("totalW")
			n := 0
			eachInstr(g, func(b *ssa.BasicBlock, ins ssa.Instruction) {
				if st, ok := ins.(*ssa.Store); ok && !norm.Blocks[b.Index] {
					if _, p := accessPath(st.Addr); len(p) > 0 && p[len(p)-1] == "Work" && blockInCycle(g, b) {
						if Call("(common.RationalNumber).Product", Call("(common.Integer).Ration", AnyV, tot), Param("base"))(st.Val) {
							n++
						} else if !Call("(common.Integer).Add")(st.Val) && !Call("(common.Integer).Div")(st.Val) {
							n = -100
						}
					}
				}
			})
			c.Require(n == 1, "shape", shortName(g)+"|share = Ration(work, totalW).Product(base)", "after normalisation the only rewrite of m.Work is work.Ration(totalW).Product(base) with the loop-invariant total and base (order preserving)", "found "+itoa(n))
		}
	}
}
