package main

import (
	"fmt"
	"go/token"
	"strings"

	"golang.org/x/tools/go/ssa"
)

func init() { register("C18", propC18) }

// comparatorShape renders a sort.Slice less-closure as a decision list over fields of
// the i-th and j-th element, e.g. "Timestamp[i]<Timestamp[j]=>true; ...; cmp(Hash[i],Hash[j])<0".
func comparatorShape(f *ssa.Function) string {
	elem := func(v ssa.Value) string {
		// field path of element: xs[i].F...
		var rev []string
		idx := ""
		for {
			switch x := v.(type) {
			case *ssa.UnOp:
				if x.Op == token.MUL {
					v = x.X
					continue
				}
			case *ssa.FieldAddr:
				if n := fieldNameOf(x.X.Type(), x.Field); n != "" {
					rev = append(rev, n)
				}
				v = x.X
				continue
			case *ssa.Field:
				if n := fieldNameOf(x.X.Type(), x.Field); n != "" {
					rev = append(rev, n)
				}
				v = x.X
				continue
			case *ssa.Slice:
				v = x.X
				continue
			case *ssa.Alloc:
				if st := storesTo(x); len(st) == 1 {
					v = st[0]
					continue
				}
			case *ssa.IndexAddr:
				if p, ok := x.Index.(*ssa.Parameter); ok {
					idx = p.Name()
				}
				for i, j := 0, len(rev)-1; i < j; i, j = i+1, j-1 {
					rev[i], rev[j] = rev[j], rev[i]
				}
				return strings.Join(rev, ".") + "[" + idx + "]"
			}
			return "?"
		}
	}
	var parts []string
	b := f.Blocks[0]
	for steps := 0; steps < 16; steps++ {
		last := b.Instrs[len(b.Instrs)-1]
		switch t := last.(type) {
		case *ssa.If:
			bo, ok := t.Cond.(*ssa.BinOp)
			if !ok {
				return "?cond"
			}
			ts := b.Succs[0]
			r, isRet := ts.Instrs[len(ts.Instrs)-1].(*ssa.Return)
			if !isRet || len(ts.Instrs) != 1 {
				return "?branch"
			}
			parts = append(parts, fmt.Sprintf("%s%s%s=>%s", elem(bo.X), bo.Op, elem(bo.Y), r.Results[0].Name()))
			b = b.Succs[1]
		case *ssa.Return:
			bo, ok := t.Results[0].(*ssa.BinOp)
			if !ok {
				return "?final"
			}
			if cl, ok := bo.X.(*ssa.Call); ok && calleeName(&cl.Call) == "bytes.Compare" {
				parts = append(parts, fmt.Sprintf("cmp(%s,%s)%s%s", elem(cl.Call.Args[0]), elem(cl.Call.Args[1]), bo.Op, bo.Y.Name()))
			} else {
				parts = append(parts, fmt.Sprintf("%s%s%s", elem(bo.X), bo.Op, elem(bo.Y)))
			}
			return strings.Join(parts, "; ")
		default:
			return "?term"
		}
	}
	return "?long"
}

// roundHashFeatures extracts the feature tuple of a round-hash implementation.
func roundHashFeatures(c *Check, f *ssa.Function) map[string]string {
	ft := map[string]string{}
	snaps := Param("snapshots")
	sorts := findCalls(f, "sort.Slice")
	if len(sorts) == 1 {
		if mc, ok := sorts[0].Common().Args[1].(*ssa.MakeClosure); ok {
			ft["comparator"] = comparatorShape(mc.Fn.(*ssa.Function))
		}
		if Has(snaps)(sorts[0].Common().Args[0]) {
			ft["sorted"] = "snapshots"
		}
	}
	// fold: the running hash lives either in a phi or (address taken by hash[:]) in a cell
	var cell *ssa.Alloc
	eachInstr(f, func(b *ssa.BasicBlock, ins ssa.Instruction) {
		if a, ok := ins.(*ssa.Alloc); ok && allocIs(a, "hash") {
			cell = a
		}
	})
	isHash := func(v ssa.Value) bool {
		if cell != nil {
			if u, ok := v.(*ssa.UnOp); ok && u.X == ssa.Value(cell) {
				return true
			}
			return v == ssa.Value(cell)
		}
		return PhiNamed("hash")(v)
	}
	var seedV, stepV ssa.Value
	var stepBlock *ssa.BasicBlock
	nStores := 0
	if cell != nil {
		for _, r := range *cell.Referrers() {
			if st, ok := r.(*ssa.Store); ok && st.Addr == ssa.Value(cell) {
				nStores++
				if blockInCycle(f, st.Block()) {
					stepV, stepBlock = st.Val, st.Block()
				} else {
					seedV = st.Val
				}
			}
		}
	}
	var fold *Loop
	if stepBlock != nil && nStores == 2 {
		for _, b := range f.Blocks {
			if strings.HasPrefix(b.Comment, "rangeindex.loop") {
				blocks := naturalLoop(f, b)
				if blocks[stepBlock.Index] {
					if iff, ok := b.Instrs[len(b.Instrs)-1].(*ssa.If); ok {
						if bo, ok := iff.Cond.(*ssa.BinOp); ok && Len(snaps)(bo.Y) {
							fold = &Loop{Name: "fold", Header: b, Body: b.Succs[0], Blocks: blocks}
						}
					}
				}
			}
		}
	}
	if fold != nil {
		if Call("crypto.Blake3Hash", Call("builtin:append", SliceOf(isHash), Has(PathFrom(snaps, "[].Hash"))))(stepV) {
			ft["step"] = "Blake3(hash||s.Hash)"
		} else {
			ft["step"] = "?" + stepV.String()
		}
		if seedV != nil && Call("crypto.Blake3Hash", Call("(encoding/binary.bigEndian).AppendUint64", nil, Has(Param("nodeId")), Param("number")))(seedV) {
			ft["seed"] = "Blake3(nodeId||number)"
		}
		if len(sorts) == 1 && sorts[0].Block().Dominates(fold.Header) {
			ft["order"] = "sort-before-fold"
		}
		okAll := true
		for _, p := range fold.Header.Preds {
			if fold.Header.Dominates(p) && p != stepBlock {
				okAll = false
			}
		}
		if okAll {
			ft["fold-all"] = "yes"
		}
	}
	// start/end
	rets := allReturns(f)
	if len(rets) == 1 {
		r := rets[0]
		first := func(v ssa.Value) bool {
			r0, p := accessPath(v)
			return snaps(r0) && strings.Join(p, ".") == "[].Timestamp" && hasIndex(v, ConstInt(0))
		}
		lastTs := func(v ssa.Value) bool {
			r0, p := accessPath(v)
			if !snaps(r0) || strings.Join(p, ".") != "[].Timestamp" {
				return false
			}
			return Has(Bin(token.SUB, Len(snaps), ConstInt(1)))(v) || hasIndex(v, Bin(token.SUB, Len(snaps), ConstInt(1)))
		}
		if first(retValue(r, 0)) {
			ft["start"] = "snapshots[0].Timestamp"
		}
		if lastTs(retValue(r, 1)) {
			ft["end"] = "snapshots[len-1].Timestamp"
		}
		if isHash(retValue(r, 2)) {
			ft["result"] = "folded hash"
		}
	}
	gap := findIfs(f, Bin(token.GEQ, nil, Bin(token.ADD, nil, c.W.ConstNamed("config", "SnapshotRoundGap"))))
	if len(gap) == 1 {
		s := gap[0].Block().Succs[0]
		if _, ok := s.Instrs[len(s.Instrs)-1].(*ssa.Panic); ok {
			ft["gap"] = "end >= start + SnapshotRoundGap => panic"
		}
	}
	return ft
}

// hasIndex: some IndexAddr under v uses an index matching m.
func hasIndex(v ssa.Value, m VM) bool {
	for {
		switch x := v.(type) {
		case *ssa.UnOp:
			v = x.X
			continue
		case *ssa.FieldAddr:
			v = x.X
			continue
		case *ssa.IndexAddr:
			if m(x.Index) {
				return true
			}
			v = x.X
			continue
		}
		return false
	}
}

func propC18(c *Check) {
	c.Explain = "Decides that the round hash is a function of the snapshot set only and that the two implementations agree: (1) both common.ComputeRoundHash and storage.computeRoundHash sort the snapshots with the comparator 'Timestamp ascending, then bytes.Compare(Hash) < 0' (a total order on snapshots with distinct hashes), the sort dominates the fold, the fold seed is Blake3(nodeId||number), the step is Blake3(hash||s.Hash) applied to every element, start/end are the first/last timestamps after sorting and the gap assertion uses config.SnapshotRoundGap; (2) the feature tuples of the two implementations are equal (sibling agreement on features, not text); (3) both are pure (no clock, randomness, channels, goroutines, map iteration); (4) the live node's CacheRound.asFinal and the loader loadFinalRoundForNode go through common.ComputeRoundHash with the round's own node id, number and snapshot list."
	c.NotCov = "hash function behaviour (collision resistance); that stored snapshots equal the live ones."
	c.Floor(10)
	want := map[string]string{
		"comparator": "Timestamp[i]<Timestamp[j]=>true:bool; Timestamp[i]>Timestamp[j]=>false:bool; cmp(Hash[i],Hash[j])<0:int",
		"sorted":     "snapshots", "order": "sort-before-fold", "seed": "Blake3(nodeId||number)", "step": "Blake3(hash||s.Hash)", "fold-all": "yes",
		"start": "snapshots[0].Timestamp", "end": "snapshots[len-1].Timestamp", "result": "folded hash", "gap": "end >= start + SnapshotRoundGap => panic",
	}
	var tuples []map[string]string
	for _, n := range []string{"common.ComputeRoundHash", "storage.computeRoundHash"} {
		f := c.F(n)
		if f == nil {
			continue
		}
		ft := roundHashFeatures(c, f)
		tuples = append(tuples, ft)
		for k, w := range want {
			c.Require(ft[k] == w, "feature", n+"|"+k, "round hash feature "+k+" is "+w, "found "+ft[k])
		}
		c.Pure(f, nil, nil, "the hash depends on its arguments only")
	}
	if len(tuples) == 2 {
		same := true
		for k := range want {
			if tuples[0][k] != tuples[1][k] {
				same = false
			}
		}
		c.Require(same, "sibling", "ComputeRoundHash~computeRoundHash", "the live and the start-up implementation have equal feature tuples", fmt.Sprint(tuples[0], " vs ", tuples[1]))
	}
	if f := c.F("(*kernel.CacheRound).asFinal"); f != nil {
		cs := findCalls(f, "common.ComputeRoundHash")
		ok := len(cs) == 1
		if ok {
			a := cs[0].Common().Args
			ok = Path(Param("c"), "NodeId")(a[0]) && Path(Param("c"), "Number")(a[1]) && Path(Param("c"), "Snapshots")(a[2])
		}
		c.Require(ok, "provenance", shortName(f)+"|uses common implementation", "asFinal computes (start,end,hash) with common.ComputeRoundHash(c.NodeId, c.Number, c.Snapshots)", "operands changed")
		okf := map[string]bool{}
		eachInstr(f, func(b *ssa.BasicBlock, ins ssa.Instruction) {
			if st, isSt := ins.(*ssa.Store); isSt {
				if fa, isFa := st.Addr.(*ssa.FieldAddr); isFa && typeShort(fa.X.Type()) == "*kernel.FinalRound" {
					idx := map[string]int{"Start": 0, "End": 1, "Hash": 2}
					n := fieldNameOf(fa.X.Type(), fa.Field)
					if i, has := idx[n]; has {
						okf[n] = Extract(i, Call("common.ComputeRoundHash"))(st.Val)
					}
				}
			}
		})
		c.Require(okf["Start"] && okf["End"] && okf["Hash"], "provenance", shortName(f)+"|final round fields", "FinalRound.Start/End/Hash are the three results of ComputeRoundHash", "field sources changed")
	}
	if f := c.F("kernel.loadFinalRoundForNode"); f != nil {
		c.Require(len(findCalls(f, "(*kernel.CacheRound).asFinal")) == 1 && len(findCalls(f, "storage.computeRoundHash")) == 0, "reach", shortName(f), "the loader derives final rounds through CacheRound.asFinal", "loader path changed")
	}
	c.WhoCalls("storage.computeRoundHash", []string{"(*storage.BadgerStore).validateSnapshotEntriesForNode"}, "the duplicate implementation is used only by the start-up graph validator")
}
