package main

import (
	"go/token"
	"strings"

	"golang.org/x/tools/go/ssa"
)

func init() { register("C19", propC19) }

func propC19(c *Check) {
	c.Explain = "Decides the single-step guard that keeps a live round closable: (1) validateSnapshot appends to the round only after a loop over *every* existing snapshot that rejects an equal hash, an equal timestamp, a different day (Timestamp/OneDay) and any shared transaction (inner loop with slices.Contains), and after the two gap tests; (2) the gap tests are extracted and evaluated over a finite grid that realises every ordering of the terms: under the invariant start<=end<start+G, whenever both tests pass, max(end,ts) < min(start,ts)+G — i.e. the accept region is exactly the negation of the closing assertion 'end >= start+G => panic' found in CacheRound.Gap and common.ComputeRoundHash, all three using the same constant config.SnapshotRoundGap; (3) Gap() takes start/end as first/last timestamp after sorting by timestamp; (4) CacheRound.Snapshots is assigned only by validateSnapshot(add), the two loaders and Copy; validateSnapshot with add=true is called only by AddSnapshot, which panics on a validation error."
	c.NotCov = "sequences: the invariant is inductive and only the step is decided; loaders are trusted to load rounds that satisfied the step when written."
	c.Floor(12)
	w := c.W
	f := c.F("(*kernel.CacheRound).validateSnapshot")
	if f == nil {
		return
	}
	cc, s := Param("c"), Param("s")
	var appends []ssa.Instruction
	eachInstr(f, func(b *ssa.BasicBlock, ins ssa.Instruction) {
		if st, ok := ins.(*ssa.Store); ok {
			if r, p := accessPath(st.Addr); cc(r) && strings.Join(p, ".") == "Snapshots" {
				appends = append(appends, ins)
				okv := Call("builtin:append", Path(cc, "Snapshots"), Has(s))(st.Val)
				c.Require(okv, "provenance", shortName(f)+"|appended value", "the snapshot appended is the validated one", "another value is appended", instrPos(w, ins))
			}
		}
	})
	c.Require(len(appends) == 1, "shape", shortName(f)+"|one append", "one append to c.Snapshots", "found "+itoa(len(appends)))
	c.MustPass(f, Gate{Name: "add true", RejectOnTrue: false, Cond: Param("add")}, appends, "appending")
	lp := c.RangeLoop(f, "existing snapshots", Path(cc, "Snapshots"))
	cs := "Snapshots.[]"
	c.LoopGate(f, lp, Gate{Name: "cs.Hash == s.Hash => reject", RejectOnTrue: true, Cond: BinEither(token.EQL, Path(cc, cs+".Hash"), Path(s, "Hash"))}, "distinct hashes")
	c.LoopGate(f, lp, Gate{Name: "cs.Timestamp == s.Timestamp => reject", RejectOnTrue: true, Cond: BinEither(token.EQL, Path(cc, cs+".Timestamp"), Path(s, "Timestamp"))}, "distinct timestamps")
	day := func(x VM) VM { return Bin(token.QUO, x, w.ConstNamed("kernel", "OneDay")) }
	c.LoopGate(f, lp, Gate{Name: "cs.Timestamp/OneDay != s.Timestamp/OneDay => reject", RejectOnTrue: true, Cond: BinEither(token.NEQ, day(Path(cc, cs+".Timestamp")), day(Path(s, "Timestamp")))}, "one day per round")
	inner := c.RangeLoop(f, "s.Transactions", Path(s, "Transactions"))
	c.LoopGate(f, inner, Gate{Name: "slices.Contains(cs.Transactions, txh) => reject", RejectOnTrue: true,
		Cond: Call("~slices.Contains", Path(cc, cs+".Transactions"), Path(s, "Transactions.[]"))}, "no shared transaction")
	if lp != nil && inner != nil {
		c.Require(lp.Blocks[inner.Header.Index], "shape", shortName(f)+"|tx loop nested", "the transaction overlap scan runs for every existing snapshot", "nesting changed")
		c.LoopEffect(f, lp, func(ins ssa.Instruction) bool { return ins.Block() == inner.Header }, "transaction overlap scan", "no existing snapshot skips the overlap scan")
		if len(appends) == 1 {
			c.Require(lp.Header.Dominates(appends[0].Block()) && !lp.Blocks[appends[0].Block().Index], "order", shortName(f)+"|append after scan", "the append follows the complete scan", "append no longer follows the scan")
		}
	}
	// gap tests: extract and evaluate
	gap := Call("(*kernel.CacheRound).Gap", cc)
	gcalls := findValues(f, gap)
	if len(gcalls) != 1 {
		c.Fail("anchor", shortName(f)+"|Gap call", "one call to c.Gap()", "found "+itoa(len(gcalls)))
		return
	}
	G, okG := w.ConstVal("config", "SnapshotRoundGap")
	leaves := []leaf{
		{Path(s, "Timestamp"), "ts"},
		{Extract(0, gap), "start"},
		{Extract(1, gap), "end"},
		{w.ConstNamed("config", "SnapshotRoundGap"), "G"},
	}
	startB := gcalls[0].(ssa.Instruction).Block()
	var appendB *ssa.BasicBlock
	if len(appends) == 1 {
		appendB = appends[0].Block()
	}
	stop := func(b *ssa.BasicBlock) bool {
		if b == appendB {
			return true
		}
		if _, ok := b.Instrs[len(b.Instrs)-1].(*ssa.Return); ok {
			return true
		}
		// the `if add` branch is not a numeric test: stop there
		if iff, ok := b.Instrs[len(b.Instrs)-1].(*ssa.If); ok && Param("add")(iff.Cond) {
			return true
		}
		return false
	}
	total, bad, accepted := 0, 0, 0
	var firstBad string
	var evalErrS string
	for g := int64(1); g <= 5 && evalErrS == ""; g++ {
		for st := int64(0); st <= 8; st++ {
			for en := st; en <= 12; en++ {
				if en >= st+g {
					continue // invariant before the step: the round is closable
				}
				for ts := int64(0); ts <= 16; ts++ {
					env := map[string]int64{"ts": ts, "start": st, "end": en, "G": g}
					tb, err := runFragment(startB, leaves, env, stop)
					if err != nil {
						evalErrS = err.Error()
						break
					}
					total++
					rejected := false
					if r, ok := tb.Instrs[len(tb.Instrs)-1].(*ssa.Return); ok && isRejectReturn(f, r) {
						rejected = true
					}
					ns, ne := st, en
					if ts < ns {
						ns = ts
					}
					if ts > ne {
						ne = ts
					}
					closable := ne < ns+g
					if !rejected {
						accepted++
					}
					if !rejected && !closable {
						bad++
						if firstBad == "" {
							firstBad = "G=" + itoa(int(g)) + " start=" + itoa(int(st)) + " end=" + itoa(int(en)) + " ts=" + itoa(int(ts)) + " is accepted but the round would span >= G"
						}
					}
				}
			}
		}
	}
	c.Sites += total
	if evalErrS != "" {
		c.Undecided("finite-eval", shortName(f)+"|gap tests", "the gap tests can be extracted as comparisons over ts,start,end,G", evalErrS)
	} else {
		c.Require(okG && G > 0 && bad == 0 && accepted > 0, "finite-eval", shortName(f)+"|gap tests keep the round closable", "for every ordering of ts,start,end,start+G,ts+G (grid of "+itoa(total)+" cases): invariant && both gap tests pass => max(end,ts) < min(start,ts)+G", firstBad)
	}
	// closing assertions use the same constant and operator
	for _, n := range []string{"(*kernel.CacheRound).Gap", "common.ComputeRoundHash"} {
		g := c.F(n)
		if g == nil {
			continue
		}
		ifs := findIfs(g, Bin(token.GEQ, nil, Bin(token.ADD, nil, w.ConstNamed("config", "SnapshotRoundGap"))))
		okp := len(ifs) == 1
		if okp {
			sb := ifs[0].Block().Succs[0]
			_, okp = sb.Instrs[len(sb.Instrs)-1].(*ssa.Panic)
		}
		c.Require(okp, "shape", n+"|closing assertion", "closing asserts end >= start + config.SnapshotRoundGap => panic (the negation of the accept region)", "assertion changed")
	}
	if g := c.F("(*kernel.CacheRound).Gap"); g != nil {
		sn := Path(Param("c"), "Snapshots")
		rets := allReturns(g)
		okr := false
		for _, r := range rets {
			a, b := retValue(r, 0), retValue(r, 1)
			ra, pa := accessPath(a)
			rb, pb := accessPath(b)
			if Param("c")(ra) && Param("c")(rb) && strings.Join(pa, ".") == "Snapshots.[].Timestamp" && strings.Join(pb, ".") == "Snapshots.[].Timestamp" &&
				hasIndex(a, ConstInt(0)) && hasIndex(b, Bin(token.SUB, Len(sn), ConstInt(1))) {
				okr = true
			}
		}
		sorts := findCalls(g, "sort.Slice")
		oks := len(sorts) == 1
		if oks {
			mc, isMc := sorts[0].Common().Args[1].(*ssa.MakeClosure)
			oks = isMc && strings.HasPrefix(comparatorShape(mc.Fn.(*ssa.Function)), "Snapshots.Timestamp[i]<Snapshots.Timestamp[j]") || isMc && strings.Contains(comparatorShape(mc.Fn.(*ssa.Function)), "Timestamp[i]<")
		}
		c.Require(okr && oks, "shape", shortName(g)+"|first/last after sort", "Gap() returns the first and last timestamps after sorting by timestamp", "Gap shape changed")
	}
	// who assigns CacheRound.Snapshots
	var who []string
	for _, fn := range w.ModuleFuncs() {
		eachInstr(fn, func(b *ssa.BasicBlock, ins ssa.Instruction) {
			if st, ok := ins.(*ssa.Store); ok {
				if fa, ok := st.Addr.(*ssa.FieldAddr); ok && fieldIs(fa.X.Type(), fa.Field, "kernel.CacheRound", "Snapshots") {
					who = append(who, shortName(fn))
				}
			}
		})
	}
	c.Sites += len(w.ModuleFuncs())
	c.Require(sameSet(dedup(who), []string{"(*kernel.CacheRound).validateSnapshot", "(*kernel.CacheRound).Copy", "kernel.loadHeadRoundForNode", "kernel.loadFinalRoundForNode"}), "whowrites", "kernel.CacheRound.Snapshots", "the snapshot list is assigned only by validateSnapshot(add), Copy and the two loaders", "writers: "+strings.Join(dedup(who), ", "))
	// add=true only from AddSnapshot
	var addCallers []string
	for _, fn := range w.ModuleFuncs() {
		for _, ci := range findCalls(fn, "(*kernel.CacheRound).validateSnapshot") {
			if !ConstBool(false)(ci.Common().Args[2]) {
				addCallers = append(addCallers, shortName(fn))
			}
		}
	}
	c.Require(sameSet(addCallers, []string{"(*kernel.Chain).AddSnapshot", "(*kernel.Node).finalizeNodeAcceptSnapshot"}), "whocalls", "validateSnapshot(add=true)", "only AddSnapshot and finalizeNodeAcceptSnapshot (fresh, empty round 0 of a newly accepted node) append through validateSnapshot", "callers: "+strings.Join(addCallers, ", "))
	if g := c.F("(*kernel.Chain).AddSnapshot"); g != nil {
		ifs := findIfs(g, BinEither(token.NEQ, Call("(*kernel.CacheRound).validateSnapshot", Param("cache"), Param("s"), ConstBool(true)), ConstNil))
		okp := len(ifs) == 1
		if okp {
			sb := ifs[0].Block().Succs[0]
			_, okp = sb.Instrs[len(sb.Instrs)-1].(*ssa.Panic)
		}
		c.Require(okp, "shape", shortName(g)+"|validation failure panics", "a finalized snapshot that does not fit the live round halts the node rather than corrupting the round", "handling changed")
	}
}
