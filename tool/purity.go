package main

import (
	"fmt"
	"go/token"
	"sort"
	"strings"

	"golang.org/x/tools/go/ssa"
)

// E8 purity: the transitive module callees of fn (static calls; interface invokes are
// resolved by CHA within the module) contain no clock read, randomness, environment
// read, goroutine start, channel operation or order-sensitive map iteration.

type impurity struct {
	Fn   string
	What string
	Pos  string
}

var impureCallPrefixes = []string{
	"time.Now", "time.Since", "time.Until", "time.Sleep", "time.After", "time.Tick", "time.NewTimer", "time.NewTicker",
	"kernel/internal/clock.", "math/rand.", "math/rand/v2.", "crypto/rand.", "crypto.ReadRand", "crypto.RandReader",
	"os.Getenv", "os.LookupEnv", "os.Environ", "os.Hostname", "os.Getpid", "runtime.NumGoroutine",
}

// process-local mutable caches: a view that consults one depends on the node's own query history
var impureCallSubstrings = []string{"github.com/dgraph-io/ristretto"}

// purityWalk returns the impurities reachable from fn. boundary lists callee-name
// prefixes that are not entered (analysis boundary, e.g. the store interface), each
// with a reason recorded by the caller. mapRangeOK names functions whose map ranges
// have been shown order-insensitive by a separate rule.
func (c *Check) purityWalk(fn *ssa.Function, boundary []string, mapRangeOK map[string]bool) ([]impurity, []string) {
	seen := map[*ssa.Function]bool{}
	var out []impurity
	var visited []string
	cha := c.W.CHA()
	var walk func(f *ssa.Function)
	walk = func(f *ssa.Function) {
		if f == nil || seen[f] || !inModule(f) || len(f.Blocks) == 0 {
			return
		}
		seen[f] = true
		name := shortName(f)
		visited = append(visited, name)
		eachInstr(f, func(b *ssa.BasicBlock, ins ssa.Instruction) {
			c.Sites++
			switch x := ins.(type) {
			case *ssa.Go:
				out = append(out, impurity{name, "goroutine start", instrPos(c.W, ins)})
			case *ssa.Select:
				out = append(out, impurity{name, "select on channels", instrPos(c.W, ins)})
			case *ssa.Send:
				out = append(out, impurity{name, "channel send", instrPos(c.W, ins)})
			case *ssa.UnOp:
				if x.Op == token.ARROW {
					out = append(out, impurity{name, "channel receive", instrPos(c.W, ins)})
				}
			case *ssa.Range:
				if _, isMap := x.X.Type().Underlying().(interface{ Key() interface{} }); isMap {
				}
				if strings.HasPrefix(x.X.Type().Underlying().String(), "map[") && !mapRangeOK[name] && !sortedMapRange(f) {
					out = append(out, impurity{name, "map iteration (order-sensitive unless shown otherwise)", instrPos(c.W, ins)})
				}
			}
			ci, ok := ins.(ssa.CallInstruction)
			if !ok {
				return
			}
			cn := calleeName(ci.Common())
			full := ""
			if sc := ci.Common().StaticCallee(); sc != nil {
				full = sc.String()
			}
			for _, p := range impureCallPrefixes {
				if strings.HasPrefix(cn, p) || strings.Contains(full, p) {
					out = append(out, impurity{name, "calls " + cn, instrPos(c.W, ins)})
					return
				}
			}
			for _, p := range impureCallSubstrings {
				if strings.Contains(cn, p) || strings.Contains(full, p) {
					out = append(out, impurity{name, "uses the process-local cache: " + cn, instrPos(c.W, ins)})
					return
				}
			}
			for _, bnd := range boundary {
				if strings.HasPrefix(cn, bnd) {
					return
				}
			}
			if sc := ci.Common().StaticCallee(); sc != nil {
				walk(sc)
				return
			}
			if mc, ok := ci.Common().Value.(*ssa.MakeClosure); ok {
				walk(mc.Fn.(*ssa.Function))
				return
			}
			if ci.Common().IsInvoke() {
				if n := cha.Nodes[f]; n != nil {
					for _, e := range n.Out {
						if e.Site == ci {
							walk(e.Callee.Func)
						}
					}
				}
			}
		})
		// closures created here (sort comparators etc.)
		for _, an := range f.AnonFuncs {
			walk(an)
		}
	}
	walk(fn)
	sort.Strings(visited)
	return out, visited
}

// Pure records the purity obligation for fn.
func (c *Check) Pure(fn *ssa.Function, boundary []string, mapRangeOK map[string]bool, why string) bool {
	if fn == nil {
		return false
	}
	imp, visited := c.purityWalk(fn, boundary, mapRangeOK)
	key := shortName(fn)
	desc := fmt.Sprintf("%s and its %d module callees read no clock, randomness or environment, start no goroutine, use no channel and iterate no map order-sensitively: %s", shortName(fn), len(visited)-1, why)
	if len(imp) > 0 {
		var parts []string
		for _, i := range imp {
			parts = append(parts, i.Fn+": "+i.What+" at "+i.Pos)
		}
		c.Fail("purity", key, desc, strings.Join(parts, "; "), c.W.Pos(fn.Pos()))
		return false
	}
	for _, v := range visited {
		c.Funcs[v] = true
	}
	c.OK("purity", key, desc, c.W.Pos(fn.Pos()))
	return true
}

// sortedMapRange: fn iterates a map only to fill a local slice that is then sorted
// (sort.Slice / slices.Sort*) before any other use: the iteration order cannot leak.
// Checked structurally: exactly one map Range; no call other than builtins inside the
// range loop; a sort call on a block that is dominated by the loop header and dominates
// every later call that is not the sort itself.
func sortedMapRange(fn *ssa.Function) bool {
	var hdr *ssa.BasicBlock
	n := 0
	eachInstr(fn, func(b *ssa.BasicBlock, ins ssa.Instruction) {
		if r, ok := ins.(*ssa.Range); ok && strings.HasPrefix(r.X.Type().Underlying().String(), "map[") {
			n++
			// header = block containing the Next on this range
			if r.Referrers() != nil {
				for _, rr := range *r.Referrers() {
					if nx, ok := rr.(*ssa.Next); ok {
						hdr = nx.Block()
					}
				}
			}
		}
	})
	if n != 1 || hdr == nil {
		return false
	}
	loop := naturalLoop(fn, hdr)
	for bi := range loop {
		for _, ins := range fn.Blocks[bi].Instrs {
			if ci, ok := ins.(ssa.CallInstruction); ok {
				if _, isB := ci.Common().Value.(*ssa.Builtin); !isB {
					return false
				}
			}
		}
	}
	var sortBlock *ssa.BasicBlock
	var sortIns ssa.Instruction
	eachInstr(fn, func(b *ssa.BasicBlock, ins ssa.Instruction) {
		if ci, ok := ins.(ssa.CallInstruction); ok {
			cn := calleeName(ci.Common())
			if cn == "sort.Slice" || strings.HasPrefix(cn, "slices.Sort") || cn == "sort.Sort" || cn == "sort.Stable" {
				if hdr.Dominates(b) && !loop[b.Index] && sortBlock == nil {
					sortBlock, sortIns = b, ins
				}
			}
		}
	})
	if sortBlock == nil {
		return false
	}
	ok := true
	eachInstr(fn, func(b *ssa.BasicBlock, ins ssa.Instruction) {
		ci, isCall := ins.(ssa.CallInstruction)
		if !isCall || ins == sortIns || loop[b.Index] {
			return
		}
		if _, isB := ci.Common().Value.(*ssa.Builtin); isB {
			return
		}
		if !hdr.Dominates(b) || b == hdr {
			return // before the loop
		}
		if !(sortBlock.Dominates(b) && (b != sortBlock || instrIndex(ins) > instrIndex(sortIns))) {
			ok = false
		}
	})
	return ok
}

// sharedWrites lists the stores / map updates, reachable from fn through module callees, whose
// target is not an object created inside the function performing the store. A view function
// that performs such a write can change what a later (or earlier-ordered) query returns.
func (c *Check) sharedWrites(fn *ssa.Function, boundary []string, pkgOnly string) ([]impurity, []string) {
	seen := map[*ssa.Function]bool{}
	var out []impurity
	var visited []string
	cha := c.W.CHA()
	var fresh func(v ssa.Value, depth int) bool
	fresh = func(v ssa.Value, depth int) bool {
		if depth > 8 {
			return false
		}
		switch x := v.(type) {
		case *ssa.Alloc, *ssa.MakeSlice, *ssa.MakeMap, *ssa.MakeChan, *ssa.MakeClosure:
			return true
		case *ssa.Slice:
			return fresh(x.X, depth+1)
		case *ssa.Phi:
			for _, e := range x.Edges {
				if e == v {
					continue
				}
				if k, ok := e.(*ssa.Const); ok && k.IsNil() {
					continue
				}
				if !fresh(e, depth+1) {
					return false
				}
			}
			return true
		case *ssa.Call:
			if calleeName(&x.Call) == "builtin:append" {
				// append(fresh-or-nil, ...) yields storage not shared with the inputs of the view
				return fresh(x.Call.Args[0], depth+1)
			}
		case *ssa.Const:
			return x.IsNil()
		case *ssa.UnOp:
			// load of a local variable holding only fresh values
			if a, ok := x.X.(*ssa.Alloc); ok && x.Op == token.MUL {
				for _, sv := range storesTo(a) {
					if !fresh(sv, depth+1) {
						return false
					}
				}
				return true
			}
		}
		return false
	}
	var walk func(f *ssa.Function)
	walk = func(f *ssa.Function) {
		if f == nil || seen[f] || !inModule(f) || len(f.Blocks) == 0 {
			return
		}
		if pkgOnly != "" {
			pf := f
			for pf.Parent() != nil {
				pf = pf.Parent()
			}
			if pf.Pkg == nil || !strings.HasSuffix(pf.Pkg.Pkg.Path(), "/"+pkgOnly) {
				return
			}
		}
		seen[f] = true
		name := shortName(f)
		visited = append(visited, name)
		eachInstr(f, func(b *ssa.BasicBlock, ins ssa.Instruction) {
			c.Sites++
			switch x := ins.(type) {
			case *ssa.Store:
				r, p := accessPath(x.Addr)
				if !fresh(r, 0) {
					out = append(out, impurity{name, "store to " + exprTextSafe(f, r) + "." + strings.Join(p, "."), instrPos(c.W, ins)})
				}
			case *ssa.MapUpdate:
				r, p := accessPath(x.Map)
				if !fresh(r, 0) {
					out = append(out, impurity{name, "map update of " + exprTextSafe(f, r) + "." + strings.Join(p, "."), instrPos(c.W, ins)})
				}
			}
			ci, ok := ins.(ssa.CallInstruction)
			if !ok {
				return
			}
			cn := calleeName(ci.Common())
			for _, bnd := range boundary {
				if strings.HasPrefix(cn, bnd) {
					return
				}
			}
			if sc := ci.Common().StaticCallee(); sc != nil {
				walk(sc)
				return
			}
			if mc, ok := ci.Common().Value.(*ssa.MakeClosure); ok {
				walk(mc.Fn.(*ssa.Function))
				return
			}
			if ci.Common().IsInvoke() {
				if n := cha.Nodes[f]; n != nil {
					for _, e := range n.Out {
						if e.Site == ci {
							walk(e.Callee.Func)
						}
					}
				}
			}
		})
		for _, an := range f.AnonFuncs {
			walk(an)
		}
	}
	walk(fn)
	sort.Strings(visited)
	return out, visited
}

func exprTextSafe(fn *ssa.Function, v ssa.Value) string {
	defer func() { recover() }()
	if v == nil {
		return "?"
	}
	if p, ok := v.(*ssa.Parameter); ok {
		return p.Name()
	}
	if g, ok := v.(*ssa.Global); ok {
		return "global " + g.Name()
	}
	if fv, ok := v.(*ssa.FreeVar); ok {
		return "captured " + fv.Name()
	}
	return v.Name() + ":" + typeShort(v.Type())
}

// NoSharedWrites: fn and its callees inside package pkgOnly perform no store or map update on
// memory they did not create (no memoisation in node/chain fields, no mutation of shared records).
func (c *Check) NoSharedWrites(fn *ssa.Function, pkgOnly string, boundary []string, why string) bool {
	if fn == nil {
		return false
	}
	imp, visited := c.sharedWrites(fn, boundary, pkgOnly)
	key := shortName(fn)
	desc := fmt.Sprintf("%s and its %d callees in package %s write only to objects they allocate: %s", key, len(visited)-1, pkgOnly, why)
	if len(imp) > 0 {
		var parts []string
		for _, i := range imp {
			parts = append(parts, i.Fn+": "+i.What+" at "+i.Pos)
		}
		c.Fail("nowrites", key, desc, strings.Join(parts, "; "), c.W.Pos(fn.Pos()))
		return false
	}
	c.OK("nowrites", key, desc, c.W.Pos(fn.Pos()))
	return true
}
