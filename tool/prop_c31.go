package main

import (
	"go/token"
	"strings"

	"golang.org/x/tools/go/ssa"
)

func init() { register("C31", propC31) }

// fieldStores: values stored to struct field (by struct short name and field name) anywhere in the module.
func fieldStores(w *World, structName, field string) []ssa.Value {
	var out []ssa.Value
	for _, fn := range w.ModuleFuncs() {
		eachInstr(fn, func(b *ssa.BasicBlock, ins ssa.Instruction) {
			if st, ok := ins.(*ssa.Store); ok {
				if fa, ok := st.Addr.(*ssa.FieldAddr); ok && fieldNameOf(fa.X.Type(), fa.Field) == field {
					if _, tn := structOf(fa.X.Type()); tn == structName {
						out = append(out, st.Val)
					}
				}
			}
		})
	}
	return out
}

func propC31(c *Check) {
	c.Explain = "Decides the size discipline of sent messages: (1) measure/serialiser agreement: the per-transaction quantity accumulated into batchSize in popAndProcessCacheQueue is the length of the same serialisation that buildTransactionsPayload emits for each transaction (VersionedTransaction.Marshal, with signatures) — either len(tx.Marshal()) directly or an accessor of a field all of whose stores are len(<that serialisation>); (2) the batch bound is tested after each addition against TransportMessageMaxSize*2/3, and from the typed constants 1 + 4*SnapshotTransactionsMaximum + TransportMessageMaxSize*2/3 + 1 (type) + 65 (relay header) <= TransportMessageMaxSize; the transaction count fits one byte (SnapshotTransactionsMaximum <= 255, builder panics above it) and retrieval is limited to that count; a single transaction is bounded by config.TransactionMaximumSize < TransportMessageMaxSize (decoder size gate); (3) QuicClient.Send rejects len<1 or len>TransportMessageMaxSize before any write and writes a header carrying len(data); receiveWithLimit rejects a zero/oversized limit, a short header, a wrong version and Size > maxSize before make([]byte, Size); buildRelayMessage keeps its size panic."
	c.NotCov = "snapshots/bundles built by other nodes; that framing round-trips byte-for-byte (offset algebra beyond the header write/read pair checked here)."
	c.Floor(12)
	w := c.W
	max, _ := w.ConstVal("p2p", "TransportMessageMaxSize")
	stm, _ := w.ConstVal("common", "SnapshotTransactionsMaximum")
	tms, _ := w.ConstVal("config", "TransactionMaximumSize")

	// (1) serialiser emitted by the bundle builder
	emit := ""
	if f := c.F("p2p.buildTransactionsPayload"); f != nil {
		for _, ci := range []string{"(*common.VersionedTransaction).Marshal", "(*common.VersionedTransaction).PayloadMarshal"} {
			if len(findCalls(f, ci)) == 1 {
				emit = ci
			}
		}
		ok := emit == "(*common.VersionedTransaction).Marshal"
		if ok {
			// each transaction: 4-byte length prefix of that serialisation, then the bytes
			pl := Call(emit, Path(Param("txs"), "[]"))
			lp := c.ForOrRangeLoopWithCall(f, "txs", emit)
			c.Accumulator(f, lp, "data", func(self VM) VM {
				return Call("builtin:append", Call("(encoding/binary.bigEndian).AppendUint32", nil, self, Conv(Len(pl))), pl)
			}, "data = append(AppendUint32(data, len(pl)), pl...) with pl = txs[i].Marshal()")
		}
		c.Require(ok, "shape", shortName(f)+"|emits Marshal()", "the bundle carries each transaction as its full (signed) Marshal() bytes", "emitted serialisation: "+emit)
		c.MustPass(f, Gate{Name: "len(txs) > SnapshotTransactionsMaximum => panic", RejectOnTrue: true, Cond: Bin(token.GTR, Len(Param("txs")), w.ConstNamed("common", "SnapshotTransactionsMaximum"))}, acceptReturns(f), "building a bundle")
	}
	if f := c.F("(*kernel.Node).popAndProcessCacheQueue"); f != nil && emit != "" {
		bs := PhiNamed("batchSize")
		txs := Extract(0, Call("iface:storage.Store.CacheRetrieveTransactions"))
		var adds []*ssa.BinOp
		eachInstr(f, func(b *ssa.BasicBlock, ins ssa.Instruction) {
			if bo, ok := ins.(*ssa.BinOp); ok && bo.Op == token.ADD && bs(bo.X) {
				adds = append(adds, bo)
			}
		})
		ok := len(adds) == 1
		detail := "found " + itoa(len(adds)) + " additions"
		if ok {
			m := adds[0].Y
			elem := PathFrom(txs, "[]")
			switch {
			case Len(Call(emit, elem))(m):
				// direct
			default:
				ok = false
				detail = "the measure is " + m.String() + ", not len(tx.Marshal())"
				if cl, isCall := m.(*ssa.Call); isCall {
					if callee := cl.Call.StaticCallee(); callee != nil && len(callee.Blocks) > 0 {
						// accessor of a field: all stores of that field must be len(emit(...))
						var fieldName string
						for _, r := range allReturns(callee) {
							if _, p := accessPath(retValue(r, 0)); len(p) == 1 {
								fieldName = p[0]
							}
						}
						if fieldName != "" {
							stores := fieldStores(w, "common.Transaction", fieldName)
							stores = append(stores, fieldStores(w, "common.VersionedTransaction", fieldName)...)
							all := len(stores) > 0
							var srcs []string
							for _, sv := range stores {
								if !Len(Call(emit))(sv) {
									all = false
									if lc, isLen := sv.(*ssa.Call); isLen && calleeName(&lc.Call) == "builtin:len" {
										if inner, isC := lc.Call.Args[0].(*ssa.Call); isC {
											srcs = append(srcs, "len("+calleeName(&inner.Call)+"())")
											continue
										}
									}
									srcs = append(srcs, sv.String())
								}
							}
							if all {
								ok = true
							} else {
								detail = "batchSize adds " + calleeName(&cl.Call) + "(), which returns field " + fieldName + " set from " + strings.Join(srcs, ", ") + " — not the length of " + emit + "() that the bundle carries (signatures are not counted)"
							}
						}
					}
				}
			}
		}
		c.Require(ok, "agreement", shortName(f)+"|batch measure = bundle serialisation", "the size accumulated per transaction is the length of the serialisation the bundle carries ("+emit+")", detail)
		// bound tested after the addition
		if len(adds) == 1 {
			bound := findIfs(f, Bin(token.LSS, Is(adds[0]), nil))
			okb := len(bound) == 1
			if okb {
				lim, isC := constIntOf(bound[0].Cond.(*ssa.BinOp).Y)
				okb = isC && lim == max*2/3
			}
			var appends []ssa.Instruction
			eachInstr(f, func(b *ssa.BasicBlock, ins ssa.Instruction) {
				if cl, isCall := ins.(*ssa.Call); isCall && calleeName(&cl.Call) == "builtin:append" && PhiNamed("batch")(cl.Call.Args[0]) {
					appends = append(appends, ins)
				}
			})
			c.Require(okb && len(appends) == 1, "bound", shortName(f)+"|tested after addition", "a transaction joins the batch only if the sum including it is below TransportMessageMaxSize*2/3", "bound test changed")
			if okb {
				c.MustPass(f, Gate{Name: "batchSize(after add) < Max*2/3", RejectOnTrue: false, Cond: Bin(token.LSS, Is(adds[0]), nil)}, appends, "admitting a transaction to the batch")
			}
		}
		rc := findCalls(f, "iface:storage.Store.CacheRetrieveTransactions")
		c.Require(len(rc) == 1 && w.ConstNamed("common", "SnapshotTransactionsMaximum")(callArgs(rc[0].Common())[1]), "bound", shortName(f)+"|retrieval limit", "at most SnapshotTransactionsMaximum transactions are retrieved per pass", "limit changed")
	}
	// (2) constants
	total := 1 + 4*stm + max*2/3 + 1 + 65
	// a full challenge additionally carries a 4-byte size, the snapshot encoding and two 32-byte points
	snapEnc := int64(4+32+8+2+64+2) + stm*32 + 8 + 8 + 64 + 8
	c.Require(max > 0 && total+4+snapEnc+64 <= max, "constfact", "sizes|full challenge fits", "an admitted batch plus the maximal snapshot encoding ("+itoa(int(snapEnc))+" bytes for "+itoa(int(stm))+" transactions), size prefix and two points still fits TransportMessageMaxSize", "total="+itoa(int(total+4+snapEnc+64))+" max="+itoa(int(max)))
	c.Require(max > 0 && total <= max && stm <= 255 && tms+1+4+1+65 <= max, "constfact", "sizes|bundle fits", "1 + 4*SnapshotTransactionsMaximum + Max*2/3 + type byte + relay header <= TransportMessageMaxSize, count fits one byte, and one maximal transaction fits", "total="+itoa(int(total))+" max="+itoa(int(max))+" count="+itoa(int(stm)))
	if f := c.F("common.unmarshalVersionedTransaction"); f != nil {
		decs := callInstrs(findCalls(f, "(*common.Decoder).DecodeTransaction"))
		c.MustPass(f, Gate{Name: "len(val) > TransactionMaximumSize => reject", RejectOnTrue: true, Cond: Bin(token.GTR, Len(Param("val")), w.ConstNamed("config", "TransactionMaximumSize"))}, decs, "decoding a transaction")
	}
	// (3) transport gates
	if f := c.F("(*p2p.QuicClient).Send"); f != nil {
		writes := callInstrs(findCalls(f, "~quic-go.Stream).Write"))
		if len(writes) == 0 {
			writes = callInstrs(findCalls(f, "~.Write"))
		}
		c.MustPass(f, Gate{Name: "len(data) < 1 => reject", RejectOnTrue: true, Cond: Bin(token.LSS, Len(Param("data")), ConstInt(1))}, writes, "writing to the stream")
		c.MustPass(f, Gate{Name: "len(data) > TransportMessageMaxSize => reject", RejectOnTrue: true, Cond: Bin(token.GTR, Len(Param("data")), w.ConstNamed("p2p", "TransportMessageMaxSize"))}, writes, "writing to the stream")
		puts := findCalls(f, "(encoding/binary.bigEndian).PutUint32")
		c.Require(len(puts) == 1 && Conv(Len(Param("data")))(puts[0].Common().Args[2]), "provenance", shortName(f)+"|header size", "the frame header carries len(data)", "header size source changed")
	}
	if f := c.F("(*p2p.QuicClient).receiveWithLimit"); f != nil {
		var mk []ssa.Instruction
		eachInstr(f, func(b *ssa.BasicBlock, ins ssa.Instruction) {
			if m, ok := ins.(*ssa.MakeSlice); ok {
				if _, isC := constIntOf(m.Len); !isC {
					mk = append(mk, ins)
				}
			}
		})
		c.Require(len(mk) == 1, "shape", shortName(f)+"|one dynamic allocation", "one allocation sized by the peer", "found "+itoa(len(mk)))
		size := func(v ssa.Value) bool { return Has(Call("(encoding/binary.bigEndian).Uint32"))(v) }
		c.MustPass(f, Gate{Name: "m.Size > maxSize => reject", RejectOnTrue: true, Cond: Bin(token.GTR, size, Param("maxSize"))}, mk, "allocating the frame buffer")
		c.MustPass(f, Gate{Name: "maxSize == 0 => reject", RejectOnTrue: true, Cond: Bin(token.EQL, Param("maxSize"), ConstInt(0))}, mk, "allocating the frame buffer")
		c.MustPass(f, Gate{Name: "maxSize > TransportMessageMaxSize => reject", RejectOnTrue: true, Cond: Bin(token.GTR, Param("maxSize"), w.ConstNamed("p2p", "TransportMessageMaxSize"))}, mk, "allocating the frame buffer")
		c.MustPass(f, Gate{Name: "header read != header size => reject", RejectOnTrue: true, Cond: Bin(token.NEQ, Extract(0, Call("io.ReadFull")), w.ConstNamed("p2p", "TransportMessageHeaderSize"))}, mk, "allocating the frame buffer")
		c.MustPass(f, Gate{Name: "version != TransportMessageVersion => reject", RejectOnTrue: true, Cond: Bin(token.NEQ, nil, w.ConstNamed("p2p", "TransportMessageVersion"))}, mk, "allocating the frame buffer")
		if len(mk) == 1 {
			c.Require(Conv(size)(mk[0].(*ssa.MakeSlice).Len) || size(mk[0].(*ssa.MakeSlice).Len), "provenance", shortName(f)+"|allocation = checked size", "the buffer allocated has exactly the checked size", "allocation size source changed")
		}
	}
	if f := c.F("(*p2p.Peer).buildRelayMessage"); f != nil {
		c.MustPass(f, Gate{Name: "len(msg) > TransportMessageMaxSize => panic", RejectOnTrue: true, Cond: Bin(token.GTR, Len(Param("msg")), w.ConstNamed("p2p", "TransportMessageMaxSize"))}, acceptReturns(f), "building a relay message")
	}
}
