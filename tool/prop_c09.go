package main

import (
	"go/token"

	"golang.org/x/tools/go/ssa"
)

func init() { register("C09", propC09) }

func propC09(c *Check) {
	c.Explain = "Decides that no path reports a snapshot as finalized without the full certificate check on the historical key set: (1) verifyFinalization reaches cacheVerifyCosi only past the version, nil-signature, zero-mask and epoch gates; its verdict is always cacheVerifyCosi's; each call receives s.Hash, s.Signature, the ids/keys of ConsensusKeys(s.RoundNumber, T) and the threshold ConsensusThreshold(T, true) for the *same* T (timestamp, resp. legacyTimestamp); the legacy retry is reachable only when the first verdict failed and the predictive-removal rule is not active; (2) cacheVerifyCosi returns constant true only past sig.FullVerify(publics, threshold, snap) == nil; its cache key derives from signature bytes, snapshot hash, every public key, threshold and mask; the two cache writes use that same key, one per outcome branch; the hit path reports true only under len(signers)==len(sig.Keys()) && len(signers)>0 on the decoded cached value; (3) FullVerify gates threshold<=0, ThresholdVerify(threshold), the aggregate-key error and A.Verify(message, c.Signature) with A aggregated from exactly the masked keys (c.Keys()); ThresholdVerify is len(c.Keys()) >= threshold; aggregatePublicKey consumes collectAggregateSigners' range/order/nil gates; (4) ConsensusKeys returns, position by position, the id and public spend key of consensusNodes(round, timestamp). The legacy retry is additionally gated by the operation-window hour tests and by the fork test on the snapshot's own timestamp; CosiSignature.Keys lists an index exactly when its mask bit is set."
	c.NotCov = "membership histories behind NodesListWithoutState (see C11), forgery resistance, ristretto cache behaviour (eviction/collisions)."
	c.Floor(28)
	w := c.W

	if f := c.F("(*kernel.Chain).verifyFinalization"); f != nil {
		s := Param("s")
		cv := "(*kernel.Node).cacheVerifyCosi"
		calls := findCalls(f, cv)
		c.Require(len(calls) == 2, "shape", shortName(f)+"|two verifications", "the current-rule verification and the legacy retry", "found "+itoa(len(calls)))
		targets := callInstrs(calls)
		c.MustPass(f, Gate{Name: "s.Version == SnapshotVersionCommonEncoding", RejectOnTrue: false, Cond: BinEither(token.EQL, Path(s, "Version"), w.ConstNamed("common", "SnapshotVersionCommonEncoding"))}, targets, "any verification")
		c.MustPass(f, Gate{Name: "s.Signature == nil => false", RejectOnTrue: true, Cond: BinEither(token.EQL, Path(s, "Signature"), ConstNil)}, targets, "any verification")
		c.MustPass(f, Gate{Name: "s.Signature.Mask == 0 => false", RejectOnTrue: true, Cond: Bin(token.EQL, Path(s, "Signature.Mask"), ConstInt(0))}, targets, "any verification")
		c.MustPass(f, Gate{Name: "timestamp < Epoch => false", RejectOnTrue: true, Cond: Bin(token.LSS, nil, Path(Param("chain"), "node.Epoch"))}, targets, "any verification")
		// verdict is cacheVerifyCosi's
		for _, r := range allReturns(f) {
			v := retValue(r, 1)
			ok := ConstBool(false)(v) || Extract(1, Call(cv))(v)
			c.Require(ok, "shape", shortName(f)+"|verdict source", "every verdict is constant false or the verdict of cacheVerifyCosi", "another verdict is returned", instrPos(w, r))
		}
		for i, ci := range calls {
			a := ci.Common().Args
			// a[0]=node, 1=snap, 2=sig, 3=cids, 4=publics, 5=threshold
			ok := Path(s, "Hash")(a[1]) && Path(s, "Signature")(a[2])
			var tsV ssa.Value
			if ex, isEx := a[4].(*ssa.Extract); ok && isEx && ex.Index == 1 {
				if ck, isCall := ex.Tuple.(*ssa.Call); isCall && calleeName(&ck.Call) == "(*kernel.Chain).ConsensusKeys" && Path(s, "RoundNumber")(ck.Call.Args[1]) {
					tsV = ck.Call.Args[2]
					ok = ok && Extract(0, Is(ck))(a[3])
				} else {
					ok = false
				}
			} else {
				ok = false
			}
			if ok {
				th, isCall := a[5].(*ssa.Call)
				ok = isCall && calleeName(&th.Call) == "(*kernel.Node).ConsensusThreshold" && th.Call.Args[1] == tsV && ConstBool(true)(th.Call.Args[2])
			}
			c.Require(ok, "provenance", shortName(f)+"|verification operands#"+itoa(i+1), "cacheVerifyCosi(s.Hash, s.Signature, ids, keys, threshold) with ids/keys = ConsensusKeys(s.RoundNumber, T) and threshold = ConsensusThreshold(T, true) for the same T", "operands changed", instrPos(w, ci))
		}
		if len(calls) == 2 {
			first := Extract(1, Is(calls[0].(*ssa.Call)))
			c.MustPass(f, Gate{Name: "first verdict finalized => return it", RejectOnTrue: true, Cond: first}, []ssa.Instruction{calls[1]}, "the legacy retry (only after the current rule failed)")
			// the legacy rule only ever applied inside the daily node-operation window
			c.MustPass(f, Gate{Name: "hour < KernelNodeAcceptTimeBegin => no retry", RejectOnTrue: true, Cond: Bin(token.LSS, AnyV, w.ConstNamed("config", "KernelNodeAcceptTimeBegin"))}, []ssa.Instruction{calls[1]}, "the legacy retry (only inside the operation window)")
			c.MustPass(f, Gate{Name: "hour > KernelNodeAcceptTimeEnd => no retry", RejectOnTrue: true, Cond: Bin(token.GTR, AnyV, w.ConstNamed("config", "KernelNodeAcceptTimeEnd"))}, []ssa.Instruction{calls[1]}, "the legacy retry (only inside the operation window)")
			// the fork test is made on the snapshot's own timestamp T (the T of the first verification),
			// not on the earlier legacy timestamp: inside the first operation window after the fork the
			// legacy timestamp still precedes the fork
			var ts1 ssa.Value
			if ex, isEx := calls[0].Common().Args[4].(*ssa.Extract); isEx {
				if ck, isCall := ex.Tuple.(*ssa.Call); isCall && calleeName(&ck.Call) == "(*kernel.Chain).ConsensusKeys" {
					ts1 = ck.Call.Args[2]
				}
			}
			forkT := func(v ssa.Value) bool { return ts1 != nil && v == ts1 }
			c.MustPass(f, Gate{Name: "usePredictiveNodeRemovalSignerSet(timestamp) => no retry", RejectOnTrue: true, Cond: Call("(*kernel.Node).usePredictiveNodeRemovalSignerSet", nil, forkT)}, []ssa.Instruction{calls[1]}, "the legacy retry (only before the signer-set fork, judged at the snapshot's own timestamp)")
		}
	}
	if f := c.F("(*kernel.Node).cacheVerifyCosi"); f != nil {
		sig := Param("sig")
		fv := Call("(*crypto.CosiSignature).FullVerify", sig, Param("publics"), Param("threshold"), Param("snap"))
		var trueRets, hitRets []ssa.Instruction
		found := Extract(1, Call("~ristretto/v2.Cache[[]byte, any]).Get"))
		for _, r := range allReturns(f) {
			if ConstBool(true)(retValue(r, 1)) {
				trueRets = append(trueRets, r)
			} else if !ConstBool(false)(retValue(r, 1)) {
				hitRets = append(hitRets, r)
			}
		}
		c.Require(len(trueRets) == 1 && len(hitRets) == 1, "shape", shortName(f)+"|verdicts", "one constant-true verdict (fresh verification) and one computed verdict (cache hit)", "found true="+itoa(len(trueRets))+" computed="+itoa(len(hitRets)))
		c.MustPass(f, Gate{Name: "sig.FullVerify(publics, threshold, snap) != nil => false", RejectOnTrue: true, Cond: BinEither(token.NEQ, fv, ConstNil)}, trueRets, "reporting a freshly verified certificate")
		gets := findCalls(f, "~ristretto/v2.Cache[[]byte, any]).Get")
		sets := findCalls(f, "~ristretto/v2.Cache[[]byte, any]).Set")
		ok := len(gets) == 1 && len(sets) == 2
		if ok {
			k := gets[0].Common().Args[1]
			ok = HasAll(Path(sig, "Signature"), Param("snap"), Path(Param("publics"), "[]"), Param("threshold"), Path(sig, "Mask"))(k)
			for _, st := range sets {
				if st.Common().Args[1] != k {
					ok = false
				}
			}
		}
		c.Require(ok, "provenance", shortName(f)+"|cache key", "the memo key derives from signature bytes, snapshot hash, every public key, threshold and mask, and both writes use the looked-up key", "a key ingredient is missing or a write uses another key")
		if len(sets) == 2 {
			errNe := BinEither(token.NEQ, fv, ConstNil)
			nFail, nOK := 0, 0
			for _, st := range sets {
				if dominatedByBranch(f, st.Block(), errNe, true) {
					nFail++
				}
				if dominatedByBranch(f, st.Block(), errNe, false) {
					nOK++
				}
			}
			c.Require(nFail == 1 && nOK == 1, "shape", shortName(f)+"|cache writes per outcome", "one cache write on the failure edge, one on the success edge of FullVerify", "cache written elsewhere")
		}
		if len(hitRets) == 1 {
			r := hitRets[0].(*ssa.Return)
			signers := Call("kernel.convertBytesToSigners", sig)
			okh := dominatedByBranch(f, r.Block(), found, true)
			if ph, isPhi := retValue(r, 1).(*ssa.Phi); okh && isPhi {
				for i, ed := range ph.Edges {
					if ConstBool(false)(ed) {
						continue
					}
					if !(Bin(token.GTR, Len(signers), ConstInt(0))(ed) && dominatedByBranch(f, ph.Block().Preds[i], Bin(token.EQL, Len(signers), Len(Call("(*crypto.CosiSignature).Keys", sig))), true)) {
						okh = false
					}
				}
			} else {
				okh = false
			}
			c.Require(okh, "shape", shortName(f)+"|hit verdict", "a remembered result reports true only if the cached signer list decodes to exactly len(sig.Keys()) > 0 entries (the failure marker decodes to none)", "hit verdict changed")
		}
	}
	if f := c.F("kernel.convertBytesToSigners"); f != nil {
		var nonNil []ssa.Instruction
		for _, r := range allReturns(f) {
			if !ConstNil(retValue(r, 0)) {
				nonNil = append(nonNil, r)
			}
		}
		c.MustPass(f, Gate{Name: "len(b) != len(sig.Keys())*32 => nil", RejectOnTrue: true, Cond: Bin(token.NEQ, Len(Param("b")), Bin(token.MUL, Len(Call("(*crypto.CosiSignature).Keys", Param("sig"))), ConstInt(32)))}, nonNil, "decoding a cached signer list")
	}
	cosiFullVerify(c)
	if f := c.F("(*kernel.Chain).ConsensusKeys"); f != nil {
		nodes := Call("(*kernel.Chain).consensusNodes", Param("chain"), Param("round"), Param("timestamp"))
		lp := c.RangeLoop(f, "nodes", nodes)
		n1, n2 := 0, 0
		if lp != nil {
			for bi := range lp.Blocks {
				for _, ins := range f.Blocks[bi].Instrs {
					st, ok := ins.(*ssa.Store)
					if !ok {
						continue
					}
					ia, ok := st.Addr.(*ssa.IndexAddr)
					if !ok {
						continue
					}
					if PathFrom(nodes, "[].IdForNetwork")(st.Val) {
						n1++
					}
					if PathAddrFrom(nodes, "[].Signer.PublicSpendKey")(st.Val) {
						n2++
					}
					_ = ia
				}
			}
		}
		c.Require(n1 == 1 && n2 == 1, "provenance", shortName(f)+"|positional keys", "signers[i] = cn.IdForNetwork and publics[i] = &cn.Signer.PublicSpendKey for cn = consensusNodes(round, timestamp)[i]", "key vector construction changed")
	}
}

// cosiFullVerify: rejection gates of FullVerify / ThresholdVerify / aggregatePublicKey (shared by C09 and C13).
func cosiFullVerify(c *Check) {
	if f := c.F("(*crypto.CosiSignature).FullVerify"); f != nil {
		rets := acceptReturns(f)
		cc := Param("c")
		agg := Call("(*crypto.CosiSignature).aggregatePublicKey", cc, Param("publics"))
		c.MustPass(f, Gate{Name: "threshold <= 0 => reject", RejectOnTrue: true, Cond: Bin(token.LEQ, Param("threshold"), ConstInt(0))}, rets, "accept")
		c.MustPass(f, Gate{Name: "c.ThresholdVerify(threshold) true", RejectOnTrue: false, Cond: Call("(*crypto.CosiSignature).ThresholdVerify", cc, Param("threshold"))}, rets, "accept")
		c.MustPass(f, Gate{Name: "aggregatePublicKey(publics) err != nil => reject", RejectOnTrue: true, Cond: BinEither(token.NEQ, Extract(1, agg), ConstNil)}, rets, "accept")
		c.MustPass(f, Gate{Name: "A.Verify(message, c.Signature) true", RejectOnTrue: false, Cond: Call("(*crypto.Key).Verify", Extract(0, agg), Param("message"), Path(cc, "Signature"))}, rets, "accept")
	}
	if f := c.F("(*crypto.CosiSignature).ThresholdVerify"); f != nil {
		rets := allReturns(f)
		ok := len(rets) == 1 && Bin(token.GEQ, Len(Call("(*crypto.CosiSignature).Keys", Param("c"))), Param("threshold"))(retValue(rets[0], 0))
		c.Require(ok, "shape", shortName(f)+"|len(Keys()) >= threshold", "the threshold test counts the masked positions", "threshold test changed")
	}
	if f := c.F("(*crypto.CosiSignature).aggregatePublicKey"); f != nil {
		rets := allReturns(f)
		ok := len(rets) == 1
		if ok {
			ex, isEx := retValue(rets[0], 0).(*ssa.Extract)
			ok = isEx && Call("crypto.aggregatePublicKey", Param("publics"), Call("(*crypto.CosiSignature).Keys", Param("c")))(ex.Tuple)
		}
		c.Require(ok, "shape", shortName(f)+"|masked keys", "the aggregate key is built from publics at exactly the masked positions c.Keys()", "aggregation operands changed")
	}
	if f := c.F("crypto.aggregatePublicKey"); f != nil {
		var accepts []ssa.Instruction
		for _, r := range acceptReturns(f) {
			if !ConstNil(retValue(r.(*ssa.Return), 0)) {
				accepts = append(accepts, r)
			}
		}
		col := Call("crypto.collectAggregateSigners", Param("publics"), Param("signers"))
		c.MustPass(f, Gate{Name: "collectAggregateSigners err != nil => reject", RejectOnTrue: true, Cond: BinEither(token.NEQ, Extract(2, col), ConstNil)}, accepts, "returning an aggregate key")
		lp := c.RangeLoop(f, "selected", Extract(0, col))
		c.Accumulator(f, lp, "P", func(self VM) VM {
			return Call("(*filippo.io/edwards25519.Point).Add", self, self, PathFrom(Extract(0, col), "[].point"))
		}, "P = P.Add(P, signer.point) for every selected signer")
	}
	if f := c.F("(*crypto.CosiSignature).Keys"); f != nil {
		ok := len(findIfs(f, Bin(token.LSS, nil, ConstInt(64)))) == 2 // entry test and back-edge test of `for i := range uint64(64)`
		c.Require(ok, "constfact", shortName(f)+"|64 positions", "Keys() enumerates all 64 bit positions of the mask", "loop bound changed")
		// an index is listed exactly when its mask bit is set
		shl := Bin(token.SHL, ConstInt(1), AnyV)
		bit := findIfs(f, Bin(token.EQL, BinEither(token.AND, Path(Param("c"), "Mask"), shl), shl))
		okb := len(bit) == 1
		if okb {
			hasAppend := func(b *ssa.BasicBlock) bool {
				for _, ins := range b.Instrs {
					if cl, isCall := ins.(*ssa.Call); isCall && calleeName(&cl.Call) == "builtin:append" {
						return true
					}
				}
				return false
			}
			okb = hasAppend(bit[0].Block().Succs[0]) && !hasAppend(bit[0].Block().Succs[1])
			n := 0
			eachInstr(f, func(b *ssa.BasicBlock, ins ssa.Instruction) {
				if cl, isCall := ins.(*ssa.Call); isCall && calleeName(&cl.Call) == "builtin:append" {
					n++
				}
			})
			okb = okb && n == 1
		}
		c.Require(okb, "shape", shortName(f)+"|index listed iff its bit is set", "the only append of Keys() sits on the true edge of c.Mask&(1<<i) == (1<<i)", "bit test or append placement changed")
	}
}
