package main

import (
	"go/token"

	"golang.org/x/tools/go/ssa"
)

func init() { register("C26", propC26) }

func propC26(c *Check) {
	c.Explain = "Decides the structure that makes work crediting exactly-once: (1) WORKPROPOSE, WORKVOTE and WORKCHECKPOINT keys are written only inside WriteRoundWork's single snapshotsDB.Update closure (so credit and checkpoint cannot be separated by a crash), and the checkpoint write dominates every credit write; (2) the replay gate 'off > round => return' and the gap panic 'round > off+1' precede every write; (3) on the replay branch (round == off) the set of snapshots to credit ('fresh') receives a snapshot only through the !osm[ss.Hash] edge (already-seen snapshots are never credited again), and a snapshot missing from the resubmission panics; on the new-round branch fresh is the submitted list; (4) the credit map is built by ranging over fresh, adds one per listed signer per snapshot, the proposer's count must equal len(fresh), the proposer is excluded from signing credit and receives the proposal credit wm[nodeId]; counters are read-modify-written through the same txn; (5) the checkpoint records the round and all submitted snapshot hashes. The replay subset is built in its own storage (never a re-slice of the submitted list), and each iteration of the missing-snapshot scan panics unless the recorded hash is present in the resubmission."
	c.NotCov = "arithmetic of the counters; the contents of signer lists (one credit per *listed* signer); day assignment."
	c.Floor(16)
	w := c.W
	e := w.Effects()
	clo := "(*storage.BadgerStore).WriteRoundWork$1"
	c.WhoWrites(e, "graphPrefixWorkLead", []string{"set", "delete"}, []string{clo}, "proposal credits")
	c.WhoWrites(e, "graphPrefixWorkSign", []string{"set", "delete"}, []string{clo}, "signing credits")
	c.WhoWrites(e, "graphPrefixWorkOffset", []string{"set", "delete"}, []string{clo}, "checkpoint with seen-set")
	if f := c.F("(*storage.BadgerStore).WriteRoundWork"); f != nil {
		c.SingleWriteTxn(e, f, "snapshotsDB")
	}
	f := c.F(clo)
	if f == nil {
		return
	}
	c.ErrorsPropagated(f, txnWriteCalls, "a failed write aborts the whole update")
	offRead := Call("storage.graphReadWorkOffset", Param("txn"), Call("storage.graphWorkOffsetKey", Param("nodeId")))
	off, osm := Extract(0, offRead), Extract(1, offRead)
	var writes []ssa.Instruction
	writes = append(writes, callInstrs(findCalls(f, "storage.graphWriteWorkOffset"))...)
	credits := callInstrs(findCalls(f, "storage.graphWriteUint64"))
	writes = append(writes, credits...)
	writes = append(writes, callInstrs(findCalls(f, "storage.removeSnapshotWorksForRound"))...)
	c.Require(len(credits) == 2, "shape", clo+"|credit writes", "two credit writes: signing credit per other signer, proposal credit for the proposer", "found "+itoa(len(credits)))
	c.MustPass(f, Gate{Name: "off > round => return (stale resubmission)", RejectOnTrue: true, Cond: Bin(token.GTR, off, Param("round"))}, writes, "any write")
	c.MustPass(f, Gate{Name: "round > off+1 => panic", RejectOnTrue: true, Cond: Bin(token.GTR, Param("round"), Bin(token.ADD, off, ConstInt(1)))}, writes, "any write")
	c.MustPass(f, Gate{Name: "graphReadWorkOffset err != nil => return err", RejectOnTrue: true, Cond: BinEither(token.NEQ, Extract(2, offRead), ConstNil)}, writes, "any write")
	// checkpoint dominates credits
	cps := findCalls(f, "storage.graphWriteWorkOffset")
	okd := len(cps) == 1
	if okd {
		for _, cr := range credits {
			if !cps[0].Block().Dominates(cr.Block()) {
				okd = false
			}
		}
		a := cps[0].Common().Args
		okd = okd && Param("txn")(a[0]) && Call("storage.graphWorkOffsetKey", Param("nodeId"))(a[1]) && Param("round")(a[2]) && Param("snapshots")(a[3])
	}
	c.Require(okd, "order", clo+"|checkpoint first", "graphWriteWorkOffset(txn, offKey, round, snapshots) precedes every credit write and records the round with all submitted snapshots", "checkpoint no longer dominates the credits or its operands changed")
	c.MustPass(f, Gate{Name: "graphWriteWorkOffset err != nil => return err", RejectOnTrue: true, Cond: BinEither(token.NEQ, Call("storage.graphWriteWorkOffset"), ConstNil)}, credits, "credit writes")
	c.MustPass(f, Gate{Name: "credit flag true", RejectOnTrue: false, Cond: Param("credit")}, credits, "credit writes")

	// fresh on the replay branch
	replay := c.RangeLoop(f, "replay scan#1/1", Param("snapshots"))
	if replay != nil {
		c.Require(dominatedByBranch(f, replay.Header, Bin(token.EQL, Param("round"), off), true), "shape", clo+"|replay branch", "the seen-set filter runs exactly when round == off", "replay scan is not under round == off")
		var appends []ssa.Instruction
		for bi := range replay.Blocks {
			for _, ins := range f.Blocks[bi].Instrs {
				if cl, ok := ins.(*ssa.Call); ok && calleeName(&cl.Call) == "builtin:append" && PhiNamed("fresh")(cl.Call.Args[0]) {
					appends = append(appends, ins)
				}
			}
		}
		c.Require(len(appends) == 1, "shape", clo+"|fresh append", "one append to fresh in the replay scan", "found "+itoa(len(appends)))
		c.mustPassFrom(f, replay.Body, Gate{Name: "osm[ss.Hash] => skip (already credited)", RejectOnTrue: true,
			Cond: func(v ssa.Value) bool {
				l, ok := v.(*ssa.Lookup)
				return ok && osm(l.X) && Path(Param("snapshots"), "[].Hash")(l.Index)
			}}, appends, "adding a snapshot to the set to credit")
	}
	// fresh sources: phi edges are the submitted list, an empty slice, or appends in the replay loop
	okf := true
	nphi := 0
	for _, v := range findValues(f, PhiNamed("fresh")) {
		nphi++
		for _, ed := range v.(*ssa.Phi).Edges {
			switch {
			case Param("snapshots")(ed), PhiNamed("fresh")(ed):
			case Call("builtin:append", PhiNamed("fresh"), Has(Path(Param("snapshots"), "[]")))(ed):
			default:
				if sl, isSlice := ed.(*ssa.Slice); isSlice { // make([]T, 0) = slice of a fresh local array
					if _, isAlloc := sl.X.(*ssa.Alloc); isAlloc {
						continue
					}
					// a re-slice of the submitted list shares its backing array: appending to it
					// overwrites the list that the checkpoint is about to record
					okf = false
					continue
				}
				if _, isMk := ed.(*ssa.MakeSlice); isMk {
					continue
				}
				okf = false
			}
		}
	}
	c.Require(okf && nphi >= 2, "provenance", clo+"|fresh sources", "fresh is the submitted list (new round) or a filtered subset built in its own fresh storage (replay); nothing else flows into it and the replay subset never shares the backing array of the submitted list", "another value flows into fresh, or the replay subset aliases the submitted list")

	// credit map built from fresh
	build := c.RangeLoop(f, "credit build#1/1", PhiNamed("fresh"))
	if build != nil {
		inner := c.RangeLoop(f, "signers", Path(PhiNamed("fresh"), "[].Signers"))
		okb := inner != nil && build.Blocks[inner.Header.Index]
		c.Require(okb, "shape", clo+"|per snapshot per signer", "for every fresh snapshot every listed signer is visited", "nesting changed")
		c.LoopEffect(f, inner, func(ins ssa.Instruction) bool {
			mu, ok := ins.(*ssa.MapUpdate)
			if !ok {
				return false
			}
			return Path(PhiNamed("fresh"), "[].Signers.[]")(mu.Key) && Bin(token.ADD, lookupOf(Is(mu.Map)), ConstInt(1))(mu.Value)
		}, "wm[si] += 1", "one credit per listed signer per snapshot")
	}
	wm := func(v ssa.Value) bool {
		m, ok := v.(*ssa.MakeMap)
		return ok && typeShort(m.Type()) == "map[crypto.Hash]uint64"
	}
	c.MustPass(f, Gate{Name: "wm[nodeId] != len(fresh) => panic", RejectOnTrue: true,
		Cond: Bin(token.NEQ, func(v ssa.Value) bool { l, ok := v.(*ssa.Lookup); return ok && wm(l.X) && Param("nodeId")(l.Index) }, Conv(Len(PhiNamed("fresh"))))}, credits, "credit writes (the proposer signed every fresh snapshot)")
	// credit loop: over wm, skipping the proposer; sign credit = old + wn
	cl := c.RangeLoop(f, "credit apply", wm)
	if cl != nil {
		var signW, leadW ssa.CallInstruction
		for _, cr := range findCalls(f, "storage.graphWriteUint64") {
			if cl.Blocks[cr.Block().Index] {
				signW = cr
			} else {
				leadW = cr
			}
		}
		oks := signW != nil && leadW != nil
		if oks {
			sa, la := signW.Common().Args, leadW.Common().Args
			ni := func(v ssa.Value) bool { e, ok := v.(*ssa.Extract); return ok && e.Index == 1 }
			wn := func(v ssa.Value) bool { e, ok := v.(*ssa.Extract); return ok && e.Index == 2 }
			oks = Call("storage.graphWorkSignKey", ni)(sa[1]) && Bin(token.ADD, Extract(0, Call("storage.graphReadUint64", Param("txn"), Call("storage.graphWorkSignKey", ni))), wn)(sa[2]) &&
				Call("storage.graphWorkLeadKey", Param("nodeId"))(la[1]) && Bin(token.ADD, Extract(0, Call("storage.graphReadUint64", Param("txn"), Call("storage.graphWorkLeadKey", Param("nodeId")))), func(v ssa.Value) bool {
				l, ok := v.(*ssa.Lookup)
				return ok && wm(l.X) && Param("nodeId")(l.Index)
			})(la[2]) && cl.Header.Dominates(leadW.Block())
		}
		c.Require(oks, "provenance", clo+"|credit operands", "sign[ni,day] = old + wm[ni] for every other signer; lead[nodeId,day] = old + wm[nodeId]", "credit operands changed")
		c.mustPassFrom(f, cl.Body, Gate{Name: "ni == nodeId => skip", RejectOnTrue: true, Cond: BinEither(token.EQL, func(v ssa.Value) bool { e, ok := v.(*ssa.Extract); return ok && e.Index == 1 }, Param("nodeId"))},
			[]ssa.Instruction{signW}, "signing credit (the proposer gets no signing credit)")
	}
	// replay: missing snapshot panics
	miss := c.RangeLoop(f, "missing scan", osm)
	if miss != nil {
		pan := false
		for bi := range miss.Blocks {
			for _, s := range f.Blocks[bi].Succs {
				if len(s.Instrs) > 0 {
					if _, ok := s.Instrs[len(s.Instrs)-1].(*ssa.Panic); ok {
						pan = true
					}
				}
			}
		}
		c.Require(pan, "shape", clo+"|shrinking resubmission panics", "a resubmission that omits an already-recorded snapshot panics", "assertion missing")
		// per iteration: an already-recorded hash that the resubmission does not list cannot be skipped
		filt := func(v ssa.Value) bool { m, ok := v.(*ssa.MakeMap); return ok && typeShort(m.Type()) == "map[crypto.Hash]bool" }
		c.LoopGate(f, miss, Gate{Name: "!filter[id] => panic", RejectOnTrue: false, Cond: lookupOf(filt)}, "every recorded snapshot of the round is present in the resubmission")
	}
	_ = w
}
