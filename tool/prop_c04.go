package main

import (
	"go/token"
	"go/types"

	"golang.org/x/tools/go/ssa"
)

func init() { register("C04", propC04) }

// C04 — a one-time output key is bound to at most one transaction.
func propC04(c *Check) {
	c.Explain = "Decides the shape of the ghost-key binding: (1) validateOutputs rejects a key repeated among a transaction's own outputs (per-key map test before insert, on every key of every output), collects every key, and every accept passes store.LockGhostKeys(allKeys, payloadHash, fork)==nil; (2) GHOST keys are written only by lockGhostKey; its Set lies only on the ErrKeyNotFound edge (an existing binding is never overwritten); a different holder rejects unless fork and the transaction hash is in a literal list of exactly three entries; malformed stored locks reject; (3) LockGhostKeys holds the store mutex in one write transaction and gates every key; (4) writeUTXO re-locks every key of the output with lockGhostKey(txn,k,utxo.Hash,true) in the finalisation transaction and the UTXO write follows that loop with every failure aborting."
	c.NotCov = "concurrent callers beyond the locking clause shared with C03; the contents of key sets."
	c.Floor(20)
	w := c.W
	e := w.Effects()

	if f := c.F("(*common.Transaction).validateOutputs"); f != nil {
		outer := c.RangeLoop(f, "outputs", Path(Param("tx"), "Outputs"))
		keys := Path(Param("tx"), "Outputs.[].Keys")
		inner := c.RangeLoop(f, "o.Keys", keys)
		k := Path(Param("tx"), "Outputs.[].Keys.[]")
		filter := func(v ssa.Value) bool {
			m, ok := v.(*ssa.MakeMap)
			return ok && typeShort(m.Type()) == "map[crypto.Key]bool"
		}
		c.LoopGate(f, inner, Gate{Name: "ghostKeysFilter[*k] => reject", RejectOnTrue: true, Cond: func(v ssa.Value) bool {
			l, ok := v.(*ssa.Lookup)
			return ok && filter(l.X) && k(l.Index)
		}}, "a key repeated among the transaction's own outputs is rejected")
		c.LoopEffect(f, inner, func(ins ssa.Instruction) bool {
			mu, ok := ins.(*ssa.MapUpdate)
			return ok && filter(mu.Map) && k(mu.Key) && ConstBool(true)(mu.Value)
		}, "ghostKeysFilter[*k] = true", "every key is recorded in the duplicate filter")
		c.LoopGate(f, inner, Gate{Name: "k.CheckKey() true", RejectOnTrue: false, Cond: Call("(crypto.Key).CheckKey", k)}, "keys are valid points")
		c.Accumulator(f, inner, "ghostKeys", func(self VM) VM { return Call("builtin:append", self, Has(k)) }, "ghostKeys = append(ghostKeys, k)")
		if outer != nil && inner != nil {
			c.Require(outer.Blocks[inner.Header.Index], "shape", shortName(f)+"|key loop inside output loop", "the key loop runs for every output", "key loop is not nested in the output loop")
			c.LoopEffect(f, outer, func(ins ssa.Instruction) bool { return ins.Block() == inner.Header }, "key loop", "no output skips its key loop")
		}
		lock := Call("iface:common.GhostLocker.LockGhostKeys", Param("store"), PhiNamed("ghostKeys"), Param("hash"), Param("fork"))
		c.MustPass(f, Gate{Name: "store.LockGhostKeys(ghostKeys, hash, fork) != nil => reject", RejectOnTrue: true, Cond: BinEither(token.NEQ, lock, ConstNil)}, acceptReturns(f), "any accepting return of validateOutputs")
	}
	if va := c.F("(*common.VersionedTransaction).Validate"); va != nil {
		cs := findCalls(va, "(*common.Transaction).validateOutputs")
		ok := len(cs) == 1 && Call("(*common.VersionedTransaction).PayloadHash", Param("ver"))(cs[0].Common().Args[2])
		c.Require(ok, "provenance", shortName(va)+"|validateOutputs.hash", "output keys are reserved for ver.PayloadHash()", "hash argument is not the payload hash")
	}

	c.WhoWrites(e, "graphPrefixGhost", []string{"set", "delete"}, []string{"storage.lockGhostKey"}, "single binding point")
	c.WhoCalls("storage.lockGhostKey", []string{"(*storage.BadgerStore).LockGhostKeys$1", "storage.writeUTXO"}, "bindings are made at admission and re-checked at finalisation only")

	if f := c.F("storage.lockGhostKey"); f != nil {
		sets := callInstrs(findCalls(f, txnSet))
		gerr := Extract(1, Call(txnGet, Param("txn"), Call("storage.graphGhostKey", Path(Param("ghost"), ""))))
		c.MustPass(f, Gate{Name: "Get(GHOST key) err == ErrKeyNotFound", RejectOnTrue: false, Cond: BinEither(token.EQL, gerr, errKeyNotFound)}, sets, "writing a binding (never over an existing one)")
		oks := len(sets) == 1
		if oks {
			a := sets[0].(ssa.CallInstruction).Common().Args
			oks = Param("txn")(a[0]) && Call("storage.graphGhostKey")(a[1]) && Has(Param("tx"))(a[2])
		}
		c.Require(oks, "provenance", shortName(f)+"|Set operands", "the binding written is GHOST(key) -> tx through the caller's txn", "operands changed")
		var nilRets []ssa.Instruction
		for _, r := range allReturns(f) {
			if ConstNil(retValue(r, 0)) {
				nilRets = append(nilRets, r)
			}
		}
		contains := func(v ssa.Value) bool {
			cl, ok := v.(*ssa.Call)
			return ok && cl.Call.StaticCallee() != nil && cl.Call.StaticCallee().Name() == "Contains[[]string string]" || ok && cl.Call.StaticCallee() != nil && cl.Call.StaticCallee().Origin() != nil && cl.Call.StaticCallee().Origin().String() == "slices.Contains"
		}
		c.MustPassAny(f, nil, "by == tx | (fork && hard-coded exception)", []Gate{
			{Name: "by != tx => reject", RejectOnTrue: true, Cond: BinEither(token.NEQ, AnyV, Param("tx"))},
			{Name: "slices.Contains(<literal list>, tx.String()) true", RejectOnTrue: false, Cond: contains},
		}, nilRets, "accepting an existing binding")
		var exRets []ssa.Instruction
		for _, r := range nilRets {
			if dominatedByBranch(f, r.Block(), contains, true) {
				exRets = append(exRets, r)
			}
		}
		c.MustPass(f, Gate{Name: "fork true", RejectOnTrue: false, Cond: Param("fork")}, exRets, "the historical-exception accept")
		c.Require(len(exRets) == 1, "shape", shortName(f)+"|one exception return", "exactly one accept is tied to the hard-coded exception list", "found "+itoa(len(exRets)))
		// literal list has exactly 3 entries
		n := -1
		for _, v := range findValues(f, contains) {
			for _, x := range backSlice(v.(*ssa.Call).Call.Args[0], 4) {
				if a, ok := x.(*ssa.Alloc); ok {
					if arr, ok := a.Type().Underlying().(*types.Pointer).Elem().Underlying().(*types.Array); ok {
						n = int(arr.Len())
					}
				}
			}
		}
		c.Require(n == 3, "constfact", shortName(f)+"|exception list length", "the hard-coded historical exception list has exactly three entries", "list length is "+itoa(n))
		c.MustPass(f, Gate{Name: "len(val) != len(by) => reject", RejectOnTrue: true, Cond: Bin(token.NEQ, Len(AnyV), ConstInt(32))}, nilRets, "accepting an existing binding")
		c.MustPass(f, Gate{Name: "by.HasValue() true", RejectOnTrue: false, Cond: Call("(crypto.Hash).HasValue")}, nilRets, "accepting an existing binding")
	}

	if f := c.F("(*storage.BadgerStore).LockGhostKeys"); f != nil {
		c.EntryLock(f, "mutex", true)
		c.SingleWriteTxn(e, f, "snapshotsDB")
	}
	if f := c.F("(*storage.BadgerStore).LockGhostKeys$1"); f != nil {
		lp := c.RangeLoop(f, "keys", Param("keys"))
		c.LoopGate(f, lp, Gate{Name: "lockGhostKey(txn, ghost, tx, fork) != nil => reject", RejectOnTrue: true,
			Cond: BinEither(token.NEQ, Call("storage.lockGhostKey", Param("txn"), Path(Param("keys"), "[]"), Param("tx"), Param("fork")), ConstNil)}, "every key is bound or the whole update aborts")
	}
	if f := c.F("storage.writeUTXO"); f != nil {
		lp := c.RangeLoop(f, "utxo.Keys", Path(Param("utxo"), "Keys"))
		c.LoopGate(f, lp, Gate{Name: "lockGhostKey(txn, k, utxo.Hash, true) != nil => reject", RejectOnTrue: true,
			Cond: BinEither(token.NEQ, Call("storage.lockGhostKey", Param("txn"), Path(Param("utxo"), "Keys.[]"), Path(Param("utxo"), "Hash"), ConstBool(true)), ConstNil)}, "finalisation re-locks every output key and fails rather than overwriting")
		sets := findCalls(f, txnSet)
		ok := len(sets) == 1 && lp != nil && lp.Header.Dominates(sets[0].Block()) && !lp.Blocks[sets[0].Block().Index]
		c.Require(ok, "order", shortName(f)+"|UTXO write after key loop", "the UTXO record is written only after the key re-lock loop has completed", "the write no longer follows the loop")
	}
}
