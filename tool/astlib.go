package main

import (
	"go/ast"
	"go/types"
	"sort"

	"golang.org/x/tools/go/packages"
)

// AST-level helpers (type-resolved) for class tables: switch statements over typed
// constants are read as sets.

func (w *World) FuncDecl(pkg, recv, name string) (*ast.FuncDecl, *packages.Package) {
	p := w.Pkgs[pkg]
	if p == nil {
		return nil, nil
	}
	for _, f := range p.Syntax {
		for _, d := range f.Decls {
			fd, ok := d.(*ast.FuncDecl)
			if !ok || fd.Name.Name != name {
				continue
			}
			r := ""
			if fd.Recv != nil && len(fd.Recv.List) == 1 {
				t := fd.Recv.List[0].Type
				if s, ok := t.(*ast.StarExpr); ok {
					t = s.X
				}
				if id, ok := t.(*ast.Ident); ok {
					r = id.Name
				}
			}
			if r == recv {
				return fd, p
			}
		}
	}
	return nil, nil
}

type Clause struct {
	Consts  []string // names of the constants listed in the case
	Default bool
	Body    string // empty | continue | panic | return | break | other
	Node    *ast.CaseClause
}

// SwitchOn returns, for each switch statement in fd whose tag satisfies tag, its clauses.
func SwitchOn(p *packages.Package, fd *ast.FuncDecl, tag func(info *types.Info, e ast.Expr) bool) [][]Clause {
	var out [][]Clause
	ast.Inspect(fd.Body, func(n ast.Node) bool {
		sw, ok := n.(*ast.SwitchStmt)
		if !ok || sw.Tag == nil || !tag(p.TypesInfo, sw.Tag) {
			return true
		}
		var cls []Clause
		for _, s := range sw.Body.List {
			cc := s.(*ast.CaseClause)
			c := Clause{Node: cc, Default: cc.List == nil}
			for _, e := range cc.List {
				c.Consts = append(c.Consts, constName(p.TypesInfo, e))
			}
			sort.Strings(c.Consts)
			c.Body = bodyKind(p.TypesInfo, cc.Body)
			cls = append(cls, c)
		}
		out = append(out, cls)
		return true
	})
	return out
}

func constName(info *types.Info, e ast.Expr) string {
	switch x := e.(type) {
	case *ast.Ident:
		if c, ok := info.Uses[x].(*types.Const); ok {
			return c.Name()
		}
	case *ast.SelectorExpr:
		if c, ok := info.Uses[x.Sel].(*types.Const); ok {
			return c.Name()
		}
	case *ast.ParenExpr:
		return constName(info, x.X)
	}
	if tv, ok := info.Types[e]; ok && tv.Value != nil {
		return "#" + tv.Value.ExactString()
	}
	return "?"
}

func bodyKind(info *types.Info, body []ast.Stmt) string {
	if len(body) == 0 {
		return "empty"
	}
	last := body[len(body)-1]
	switch s := last.(type) {
	case *ast.BranchStmt:
		return s.Tok.String()
	case *ast.ReturnStmt:
		return "return"
	case *ast.ExprStmt:
		if call, ok := s.X.(*ast.CallExpr); ok {
			if id, ok := call.Fun.(*ast.Ident); ok && id.Name == "panic" {
				if _, isBuiltin := info.Uses[id].(*types.Builtin); isBuiltin {
					return "panic"
				}
			}
		}
	}
	return "other"
}

// TagField: the switch tag selects field `field` of a struct type named structName.
func TagField(structName, field string) func(*types.Info, ast.Expr) bool {
	return func(info *types.Info, e ast.Expr) bool {
		sel, ok := e.(*ast.SelectorExpr)
		if !ok {
			return false
		}
		s := info.Selections[sel]
		if s == nil || s.Kind() != types.FieldVal || s.Obj().Name() != field {
			return false
		}
		t := s.Recv()
		if p, ok := t.Underlying().(*types.Pointer); ok {
			t = p.Elem()
		}
		if structName == "" {
			return true
		}
		// the field may be promoted: accept when the named receiver or the field's struct matches
		if n, ok := t.(*types.Named); ok && n.Obj().Name() == structName {
			return true
		}
		return fieldOwner(t, s.Obj().(*types.Var)) == structName
	}
}

func fieldOwner(t types.Type, f *types.Var) string {
	seen := map[types.Type]bool{}
	var walk func(t types.Type) string
	walk = func(t types.Type) string {
		if p, ok := t.Underlying().(*types.Pointer); ok {
			t = p.Elem()
		}
		if seen[t] {
			return ""
		}
		seen[t] = true
		st, ok := t.Underlying().(*types.Struct)
		if !ok {
			return ""
		}
		for i := 0; i < st.NumFields(); i++ {
			if st.Field(i) == f {
				if n, ok := t.(*types.Named); ok {
					return n.Obj().Name()
				}
			}
			if st.Field(i).Embedded() {
				if r := walk(st.Field(i).Type()); r != "" {
					return r
				}
			}
		}
		return ""
	}
	return walk(t)
}

// TagCall: the switch tag is a call of a method/function named name.
func TagCall(name string) func(*types.Info, ast.Expr) bool {
	return func(info *types.Info, e ast.Expr) bool {
		call, ok := e.(*ast.CallExpr)
		if !ok {
			return false
		}
		switch f := call.Fun.(type) {
		case *ast.SelectorExpr:
			if o := info.Uses[f.Sel]; o != nil {
				return o.Name() == name
			}
		case *ast.Ident:
			if o := info.Uses[f]; o != nil {
				return o.Name() == name
			}
		}
		return false
	}
}

// TagVar: the switch tag is a local variable / parameter named name.
func TagVar(name string) func(*types.Info, ast.Expr) bool {
	return func(info *types.Info, e ast.Expr) bool {
		id, ok := e.(*ast.Ident)
		if !ok {
			return false
		}
		_, isVar := info.Uses[id].(*types.Var)
		return isVar && id.Name == name
	}
}

// constsWithPrefix lists the names of package-level constants with the given prefix.
func (w *World) constsWithPrefix(pkg, prefix string) []string {
	var out []string
	sc := w.Pkgs[pkg].Types.Scope()
	for _, n := range sc.Names() {
		if _, ok := sc.Lookup(n).(*types.Const); ok && len(n) > len(prefix) && n[:len(prefix)] == prefix {
			out = append(out, n)
		}
	}
	sort.Strings(out)
	return out
}

func sameSet(a, b []string) bool {
	if len(a) != len(b) {
		return false
	}
	x := append([]string{}, a...)
	y := append([]string{}, b...)
	sort.Strings(x)
	sort.Strings(y)
	for i := range x {
		if x[i] != y[i] {
			return false
		}
	}
	return true
}
