package main

import (
	"bytes"
	"fmt"
	"os"
	"os/exec"
	"path/filepath"
	"sort"
	"strings"
	"sync"
)

// Self-test corpus: /verif/variants/<ID>/*.patch are single-edit variants of /repo that
// still compile; the rules of <ID> must report each one (exit 1, obligation key
// containing the "# expect:" substring). Each variant is applied to a scratch copy under
// $TMPDIR, checked in a fresh process, and the copy is removed immediately.

type variantResult struct {
	Name   string
	Fired  bool
	Detail string
}

func runVariants(id string, only string) ([]variantResult, error) {
	dir := filepath.Join(verifDir(), "variants", id)
	ents, err := os.ReadDir(dir)
	if err != nil {
		return nil, nil // no corpus
	}
	var patches []string
	for _, e := range ents {
		if strings.HasSuffix(e.Name(), ".patch") && (only == "" || strings.Contains(e.Name(), only)) {
			patches = append(patches, filepath.Join(dir, e.Name()))
		}
	}
	sort.Strings(patches)
	self, err := os.Executable()
	if err != nil {
		return nil, err
	}
	results := make([]variantResult, len(patches))
	sem := make(chan struct{}, 4)
	var wg sync.WaitGroup
	for i, p := range patches {
		wg.Add(1)
		go func(i int, p string) {
			defer wg.Done()
			sem <- struct{}{}
			defer func() { <-sem }()
			results[i] = runOneVariant(self, id, p)
		}(i, p)
	}
	wg.Wait()
	return results, nil
}

func runOneVariant(self, id, patch string) variantResult {
	name := strings.TrimSuffix(filepath.Base(patch), ".patch")
	res := variantResult{Name: name}
	data, err := os.ReadFile(patch)
	if err != nil {
		res.Detail = err.Error()
		return res
	}
	expect := ""
	for _, l := range strings.Split(string(data), "\n") {
		if strings.HasPrefix(l, "# expect:") {
			expect = strings.TrimSpace(strings.TrimPrefix(l, "# expect:"))
		}
	}
	tmp, err := os.MkdirTemp("", "mixvet-var-")
	if err != nil {
		res.Detail = err.Error()
		return res
	}
	defer os.RemoveAll(tmp)
	scratch := filepath.Join(tmp, "repo")
	// copy the working tree without .git
	cp := exec.Command("rsync", "-a", "--exclude", ".git", repoDir()+"/", scratch+"/")
	if out, err := cp.CombinedOutput(); err != nil {
		res.Detail = "copy failed: " + string(out)
		return res
	}
	ap := exec.Command("patch", "-p1", "-s", "-d", scratch, "-i", patch)
	if out, err := ap.CombinedOutput(); err != nil {
		res.Detail = "patch does not apply: " + string(out)
		return res
	}
	ev := filepath.Join(tmp, "ev")
	os.MkdirAll(ev, 0o755)
	cmd := exec.Command(self, "check", id, "--tier", "quick")
	cmd.Env = append(os.Environ(), "MIXVET_REPO="+scratch, "MIXVET_EVIDENCE="+ev)
	var out bytes.Buffer
	cmd.Stdout = &out
	cmd.Stderr = &out
	err = cmd.Run()
	code := 0
	if ee, ok := err.(*exec.ExitError); ok {
		code = ee.ExitCode()
	} else if err != nil {
		res.Detail = err.Error()
		return res
	}
	s := out.String()
	if strings.Contains(s, "load error") || strings.Contains(s, "load/type errors") {
		res.Detail = "variant does not compile: " + firstLines(s, 6)
		return res
	}
	if code != 1 || !strings.Contains(s, "VIOLATION property="+id) {
		res.Detail = fmt.Sprintf("check did not fire (exit %d)", code)
		return res
	}
	if expect != "" && !strings.Contains(s, expect) {
		res.Detail = "fired, but not on the expected instance [" + expect + "]: " + firstLines(s, 12)
		return res
	}
	res.Fired = true
	return res
}

func firstLines(s string, n int) string {
	ls := strings.Split(s, "\n")
	if len(ls) > n {
		ls = ls[:n]
	}
	return strings.Join(ls, "\n")
}

// variantsObligations runs the corpus and records one obligation per variant.
func (c *Check) variantsObligations() {
	rs, err := runVariants(c.ID, "")
	if err != nil {
		c.Undecided("selftest", "variants", "the self-test corpus must run", err.Error())
		return
	}
	for _, r := range rs {
		if r.Fired {
			c.Variants = append(c.Variants, r.Name)
			c.OK("selftest", "variant:"+r.Name, "the rules report the recorded single-edit variant "+r.Name)
		} else {
			c.Undecided("selftest", "variant:"+r.Name, "the rules report the recorded single-edit variant "+r.Name, r.Detail)
		}
	}
}

// archObligation re-runs the property's rules on the GOARCH=386 build configuration
// (build-tagged files, 32-bit int) in a fresh process.
func (c *Check) archObligation() {
	self, err := os.Executable()
	if err != nil {
		c.Undecided("selftest", "goarch-386", "the rules hold on the 32-bit build configuration", err.Error())
		return
	}
	tmp, err := os.MkdirTemp("", "mixvet-386-")
	if err != nil {
		c.Undecided("selftest", "goarch-386", "the rules hold on the 32-bit build configuration", err.Error())
		return
	}
	defer os.RemoveAll(tmp)
	cmd := exec.Command(self, "check", c.ID, "--tier", "quick")
	cmd.Env = append(os.Environ(), "MIXVET_GOARCH=386", "MIXVET_EVIDENCE="+tmp)
	out, err := cmd.CombinedOutput()
	if err != nil {
		c.Undecided("selftest", "goarch-386", "the rules hold on the 32-bit build configuration", "second load failed or reported violations: "+firstLines(string(out), 8))
		return
	}
	c.OK("selftest", "goarch-386", "the same rules hold on the GOARCH=386 build configuration (second load in a fresh process)")
}

// vetCopylocks runs the standard copylocks analyzer of `go vet` over the given packages of
// /repo (a zero-code side rule: no value containing a mutex is copied).
func (c *Check) vetCopylocks(pkgs ...string) {
	args := append([]string{"vet", "-copylocks"}, pkgs...)
	cmd := exec.Command("go", args...)
	cmd.Dir = repoDir()
	cmd.Env = append(os.Environ(), "GOFLAGS=-mod=vendor", "GOWORK=off", "GOPROXY=off", "GOSUMDB=off", "GOTOOLCHAIN=local")
	out, err := cmd.CombinedOutput()
	if err != nil {
		c.Fail("vet-copylocks", strings.Join(pkgs, ","), "go vet -copylocks reports no by-value copy of a lock-holding struct", firstLines(string(out), 10))
		return
	}
	c.OK("vet-copylocks", strings.Join(pkgs, ","), "go vet -copylocks reports no by-value copy of a lock-holding struct in "+strings.Join(pkgs, ", "))
}
