package main

import (
	"go/token"
	"strings"

	"golang.org/x/tools/go/ssa"
)

// ErrorsPropagated: in fn, every call matching sel whose last result is an error has
// that error either returned directly or tested against nil with the non-nil edge
// leading only to reject returns / panics. A dropped or overwritten error is reported.
func (c *Check) ErrorsPropagated(fn *ssa.Function, sel func(callee string, ci ssa.CallInstruction) bool, why string) bool {
	if fn == nil {
		return false
	}
	key := shortName(fn)
	desc := "no error from a storage write is dropped in " + shortName(fn) + ": " + why
	n := 0
	var bad []string
	eachInstr(fn, func(b *ssa.BasicBlock, ins ssa.Instruction) {
		cl, ok := ins.(*ssa.Call)
		if !ok {
			return
		}
		name := calleeName(&cl.Call)
		if !sel(name, cl) {
			return
		}
		res := cl.Call.Signature().Results()
		if res.Len() == 0 || !isErrorType(res.At(res.Len()-1).Type()) {
			return
		}
		n++
		var ev ssa.Value = cl
		if res.Len() > 1 {
			ev = nil
			if cl.Referrers() != nil {
				for _, r := range *cl.Referrers() {
					if ex, ok := r.(*ssa.Extract); ok && ex.Index == res.Len()-1 {
						ev = ex
					}
				}
			}
			if ev == nil {
				bad = append(bad, name+" at "+instrPos(c.W, ins)+": error result discarded")
				return
			}
		}
		if !errHandled(fn, ev) {
			bad = append(bad, name+" at "+instrPos(c.W, ins)+": error neither returned nor tested against nil on a rejecting edge")
		}
	})
	c.Sites += n
	if n == 0 {
		c.Fail("errprop", key, desc, "no matching call found (rule would be vacuous)", c.W.Pos(fn.Pos()))
		return false
	}
	if len(bad) > 0 {
		c.Fail("errprop", key, desc, strings.Join(bad, "; "), c.W.Pos(fn.Pos()))
		return false
	}
	c.OK("errprop", key, desc, c.W.Pos(fn.Pos()))
	return true
}

func errHandled(fn *ssa.Function, ev ssa.Value) bool {
	if ev.Referrers() == nil {
		return false
	}
	ei := errResultIndex(fn)
	evBlock := ev.(ssa.Instruction).Block()
	for _, r := range allReturns(fn) {
		// delegation: return f(...) with no branch in between
		if ei >= 0 && retValue(r, ei) == ev && r.Block() == evBlock {
			return true
		}
	}
	for _, r := range *ev.Referrers() {
		// stored into the spilled result slot and returned
		if st, ok := r.(*ssa.Store); ok && st.Val == ev {
			for _, ret := range allReturns(fn) {
				if ret.Block() == st.Block() && ei >= 0 && retValue(ret, ei) == ev {
					return true
				}
			}
		}
		bo, ok := r.(*ssa.BinOp)
		if !ok || (bo.Op != token.NEQ && bo.Op != token.EQL) || bo.Referrers() == nil {
			continue
		}
		other := bo.Y
		if bo.Y == ev {
			other = bo.X
		}
		if !ConstNil(other) {
			continue
		}
		for _, rr := range *bo.Referrers() {
			iff, ok := rr.(*ssa.If)
			if !ok {
				continue
			}
			succ := iff.Block().Succs[0]
			if bo.Op == token.EQL {
				succ = iff.Block().Succs[1]
			}
			if rejectOnly(fn, succ) {
				return true
			}
			// propagation idiom `if err != nil || x == nil { return ..., err }`: the
			// non-nil edge goes straight to a return of this very error
			if ret, ok := succ.Instrs[len(succ.Instrs)-1].(*ssa.Return); ok && ei >= 0 && retValue(ret, ei) == ev {
				return true
			}
		}
		// phi-joined short circuit: err != nil || x  -> handled when every successor path through the non-nil edge rejects
	}
	return false
}

// rejectOnly: every exit reachable from b is a reject return or a panic, without
// re-entering a loop header that leads elsewhere (bounded: b must not reach an accept return).
func rejectOnly(fn *ssa.Function, b *ssa.BasicBlock) bool {
	seen := reachable(fn, b, nil)
	for bi := range seen {
		blk := fn.Blocks[bi]
		if len(blk.Instrs) == 0 {
			continue
		}
		if r, ok := blk.Instrs[len(blk.Instrs)-1].(*ssa.Return); ok && !isRejectReturn(fn, r) {
			return false
		}
	}
	return true
}

// txnWriteCalls selects Badger writes and module helpers that receive the transaction.
func txnWriteCalls(callee string, ci ssa.CallInstruction) bool {
	if callee == txnSet || callee == txnDelete || strings.HasSuffix(callee, "badger/v4.Txn).SetEntry") || strings.HasSuffix(callee, "badger/v4.Txn).Commit") {
		return true
	}
	f := ci.Common().StaticCallee()
	if f == nil || !inModule(f) {
		return false
	}
	for _, a := range ci.Common().Args {
		if isTxnType(a.Type()) {
			return true
		}
	}
	return false
}
