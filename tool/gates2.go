package main

import (
	"fmt"
	"go/token"
	"strings"

	"golang.org/x/tools/go/ssa"
)

// LoopGateAny: like LoopGate but the pass edges of several alternative gates together
// must cut every completed iteration (e.g. state in {A, B, C}).
func (c *Check) LoopGateAny(fn *ssa.Function, lp *Loop, name string, gs []Gate, what string) bool {
	if fn == nil || lp == nil {
		return false
	}
	key := shortName(fn) + "|loop:" + lp.Name + "|" + name
	desc := fmt.Sprintf("every completed iteration of loop %s passes gate [%s] (%s)", lp.Name, name, what)
	inLoop := map[Edge]bool{}
	var sites []string
	for _, g := range gs {
		cut, s := c.passEdges(fn, g)
		n := 0
		for e := range cut {
			if lp.Blocks[e.From] {
				inLoop[e] = true
				n++
			}
		}
		if n == 0 {
			c.Fail("loopgate", key, desc, "gate ["+g.Name+"] not found inside the loop body", c.W.Pos(fn.Pos()))
			return false
		}
		sites = append(sites, s...)
	}
	seen := reachable(fn, lp.Body, inLoop)
	if seen[lp.Header.Index] {
		c.Fail("loopgate", key, desc, "an iteration can complete without passing the gate; path: "+describePath(c.W, fn, lp.Body, inLoop, lp.Header), sites...)
		return false
	}
	for bi := range seen {
		if lp.Blocks[bi] {
			continue
		}
		for _, ins := range fn.Blocks[bi].Instrs {
			if r, ok := ins.(*ssa.Return); ok && !isRejectReturn(fn, r) {
				if lp.exempt != nil && lp.exempt(r) {
					continue
				}
				c.Fail("loopgate", key, desc, "the loop can be left to a non-reject return at "+instrPos(c.W, r)+" without passing the gate", sites...)
				return false
			}
		}
	}
	c.OK("loopgate", key, desc, sites...)
	return true
}

// LastOf matches s[len(s)-1] for a slice matching s.
func LastOf(s VM) VM {
	return func(v ssa.Value) bool {
		if u, ok := v.(*ssa.UnOp); ok {
			v = u.X
		}
		ia, ok := v.(*ssa.IndexAddr)
		if !ok || !s(ia.X) {
			return false
		}
		b, ok := ia.Index.(*ssa.BinOp)
		return ok && b.Op.String() == "-" && Len(s)(b.X) && ConstInt(1)(b.Y)
	}
}

// PathFrom: v is read through `path` from a base value matching base, where base is
// matched against intermediate values too (not only the root).
func PathFrom(base VM, path string) VM {
	return func(v ssa.Value) bool {
		// walk down collecting selectors until base matches
		var rev []string
		for {
			if base(v) {
				j := ""
				for i := len(rev) - 1; i >= 0; i-- {
					if j != "" {
						j += "."
					}
					j += rev[i]
				}
				if j == path {
					return true
				}
			}
			switch x := v.(type) {
			case *ssa.UnOp:
				if x.Op.String() == "*" {
					v = x.X
					continue
				}
			case *ssa.FieldAddr:
				if n := fieldNameOf(x.X.Type(), x.Field); n != "" {
					rev = append(rev, n)
				}
				v = x.X
				continue
			case *ssa.Field:
				if n := fieldNameOf(x.X.Type(), x.Field); n != "" {
					rev = append(rev, n)
				}
				v = x.X
				continue
			case *ssa.IndexAddr:
				rev = append(rev, "[]")
				v = x.X
				continue
			case *ssa.Index:
				rev = append(rev, "[]")
				v = x.X
				continue
			case *ssa.Alloc:
				if st := storesTo(x); len(st) == 1 && !hasPartialStores(x) {
					if _, isParam := st[0].(*ssa.Parameter); !isParam {
						v = st[0]
						continue
					}
				}
			}
			return false
		}
	}
}

// DomSetBy: block of ins is dominated by the `outcome` edge of a branch matching cond.
func domBy(fn *ssa.Function, ins ssa.Instruction, cond VM, outcome bool) bool {
	return dominatedByBranch(fn, ins.Block(), cond, outcome)
}

// Local matches a read of the named local variable, whether it was lifted to SSA
// registers (phi) or kept in a cell (address taken / captured by a closure).
func Local(name string) VM {
	return func(v ssa.Value) bool {
		if p, ok := v.(*ssa.Phi); ok && phiIs(p, name) {
			return true
		}
		if u, ok := v.(*ssa.UnOp); ok && u.Op.String() == "*" {
			if a, ok := u.X.(*ssa.Alloc); ok && allocIs(a, name) {
				return true
			}
		}
		return false
	}
}

// PathAddr matches the address &root.path (pointer-receiver calls on a field).
func PathAddr(root VM, path string) VM {
	return func(v ssa.Value) bool {
		if _, ok := v.(*ssa.FieldAddr); !ok {
			return false
		}
		return Path(root, path)(v)
	}
}

// PathAddrFrom is PathAddr with an intermediate base (see PathFrom).
func PathAddrFrom(base VM, path string) VM {
	return func(v ssa.Value) bool {
		if _, ok := v.(*ssa.FieldAddr); !ok {
			return false
		}
		return PathFrom(base, path)(v)
	}
}

// EdgeEffect: in loop lp, once the `outcome` edge of the branch matching cond is
// taken, the iteration cannot complete without executing an instruction matching pred.
func (c *Check) EdgeEffect(fn *ssa.Function, lp *Loop, cond VM, outcome bool, pred func(ssa.Instruction) bool, name, what string) bool {
	if fn == nil || lp == nil {
		return false
	}
	key := shortName(fn) + "|loop:" + lp.Name + "|edge-effect:" + name
	desc := fmt.Sprintf("in loop %s: %s (%s)", lp.Name, name, what)
	var starts []*ssa.BasicBlock
	for _, i := range findIfs(fn, cond) {
		if !lp.Blocks[i.Block().Index] {
			continue
		}
		s := i.Block().Succs[0]
		if !outcome {
			s = i.Block().Succs[1]
		}
		starts = append(starts, s)
	}
	if len(starts) == 0 {
		c.Fail("edgeeffect", key, desc, "branch not found in loop", c.W.Pos(fn.Pos()))
		return false
	}
	cut := map[Edge]bool{}
	blocked := map[int]bool{}
	for bi := range lp.Blocks {
		for _, ins := range fn.Blocks[bi].Instrs {
			if pred(ins) {
				blocked[bi] = true
			}
		}
	}
	if len(blocked) == 0 {
		c.Fail("edgeeffect", key, desc, "effect not found in loop", c.W.Pos(fn.Pos()))
		return false
	}
	for bi := range blocked {
		for _, s := range fn.Blocks[bi].Succs {
			cut[Edge{bi, s.Index}] = true
		}
	}
	for _, st := range starts {
		if blocked[st.Index] {
			continue
		}
		if reachable(fn, st, cut)[lp.Header.Index] {
			c.Fail("edgeeffect", key, desc, "after the branch the iteration can complete without the effect: "+describePath(c.W, fn, st, cut, lp.Header), c.W.Pos(fn.Pos()))
			return false
		}
	}
	c.OK("edgeeffect", key, desc)
	return true
}

// LoopGateForAppend: in loop lp, every append to the loop-carried slice `name` is
// reached only through the pass edge of g (from the body entry).
func (c *Check) LoopGateForAppend(fn *ssa.Function, lp *Loop, g Gate, name, what string) bool {
	if fn == nil || lp == nil {
		return false
	}
	var targets []ssa.Instruction
	for bi := range lp.Blocks {
		for _, ins := range fn.Blocks[bi].Instrs {
			if cl, ok := ins.(*ssa.Call); ok && calleeName(&cl.Call) == "builtin:append" && PhiNamed(name)(cl.Call.Args[0]) {
				targets = append(targets, ins)
			}
		}
	}
	return c.mustPassFrom(fn, lp.Body, g, targets, what+" (append to "+name+")")
}

// LoopGateForMapUpdate: in loop lp, every map update is reached only through the pass edge of g.
func (c *Check) LoopGateForMapUpdate(fn *ssa.Function, lp *Loop, g Gate, what string) bool {
	if fn == nil || lp == nil {
		return false
	}
	var targets []ssa.Instruction
	for bi := range lp.Blocks {
		for _, ins := range fn.Blocks[bi].Instrs {
			if _, ok := ins.(*ssa.MapUpdate); ok {
				targets = append(targets, ins)
			}
		}
	}
	return c.mustPassFrom(fn, lp.Body, g, targets, what)
}

// Accumulator2: the loop-carried slice `name` changes only by the given append, and
// only on the `outcome` edge of cond.
func (c *Check) Accumulator2(fn *ssa.Function, lp *Loop, name string, step VM, cond VM) bool {
	if fn == nil || lp == nil {
		return false
	}
	key := shortName(fn) + "|loop:" + lp.Name + "|acc2:" + name
	desc := "in loop " + lp.Name + " the slice " + name + " grows only by the stated append under the stated condition"
	n := 0
	ok := true
	for bi := range lp.Blocks {
		for _, ins := range fn.Blocks[bi].Instrs {
			cl, isCall := ins.(*ssa.Call)
			if !isCall || calleeName(&cl.Call) != "builtin:append" || !PhiNamed(name)(cl.Call.Args[0]) {
				continue
			}
			n++
			if !step(cl) || !dominatedByBranch(fn, cl.Block(), cond, true) {
				ok = false
			}
		}
	}
	c.Sites += len(lp.Blocks)
	return c.Require(ok && n == 1, "accumulator", key, desc, "append sites: "+itoa(n))
}

// LoopGateForMapUpdateN: the n-th (1-based, block order) map update in loop lp is
// reached from the loop body entry only through the pass edge of g.
func (c *Check) LoopGateForMapUpdateN(fn *ssa.Function, lp *Loop, g Gate, n int, what string) bool {
	if fn == nil || lp == nil {
		return false
	}
	var ups []ssa.Instruction
	for _, b := range fn.Blocks {
		if !lp.Blocks[b.Index] {
			continue
		}
		for _, ins := range b.Instrs {
			if _, ok := ins.(*ssa.MapUpdate); ok {
				ups = append(ups, ins)
			}
		}
	}
	if n < 1 || n > len(ups) {
		c.Fail("gate", shortName(fn)+"|"+g.Name, what, "map update #"+itoa(n)+" not found")
		return false
	}
	// choose the update that is NOT reachable without the gate among candidates: use the last in block order
	return c.mustPassFrom(fn, lp.Body, g, []ssa.Instruction{ups[len(ups)-1]}, what)
}

// NoEarlyExit: the loop is left only through its header (range exhausted), so every element is
// visited. Exits to blocks that end in a panic, in a reject return, or that `allow` accepts are
// tolerated. Decides the "for every element" reading of a loop against `break` / early `return`.
func (c *Check) NoEarlyExit(fn *ssa.Function, lp *Loop, allow func(from, to *ssa.BasicBlock) bool, what string) bool {
	if fn == nil || lp == nil {
		return false
	}
	key := shortName(fn) + "|loop:" + lp.Name + "|visits every element"
	desc := fmt.Sprintf("loop %s is left only when its range is exhausted (%s)", lp.Name, what)
	var bad []string
	for bi := range lp.Blocks {
		b := fn.Blocks[bi]
		if b == lp.Header {
			continue
		}
		for _, s := range b.Succs {
			if lp.Blocks[s.Index] {
				continue
			}
			if allow != nil && allow(b, s) {
				continue
			}
			// compound loop conditions (`for ...; a && b; ...`): the later operands are evaluated in
			// cond.* blocks that leave to the header's own exit
			if len(lp.Header.Succs) == 2 && s == lp.Header.Succs[1] && isLoopCondBlock(lp, b, 0) {
				continue
			}
			// rotated `for i := range n` loops leave from the latch on `iter+1 < n` false
			if iff, ok := b.Instrs[len(b.Instrs)-1].(*ssa.If); ok && s == b.Succs[1] {
				if bo, ok := iff.Cond.(*ssa.BinOp); ok && bo.Op == token.LSS {
					if inc, ok := bo.X.(*ssa.BinOp); ok && inc.Op == token.ADD {
						if ph, ok := inc.X.(*ssa.Phi); ok && strings.HasPrefix(ph.Comment, "rangeint") {
							continue
						}
					}
				}
			}
			// tolerated: the exit leads only to panics / reject returns
			okExit := true
			for ri := range reachable(fn, s, nil) {
				rb := fn.Blocks[ri]
				if lp.Blocks[ri] {
					continue
				}
				switch t := rb.Instrs[len(rb.Instrs)-1].(type) {
				case *ssa.Return:
					if !isRejectReturn(fn, t) {
						okExit = false
					}
				}
			}
			if !okExit {
				bad = append(bad, fmt.Sprintf("block %d (%s) leaves the loop to block %d at %s", b.Index, b.Comment, s.Index, instrPos(c.W, b.Instrs[len(b.Instrs)-1])))
			}
		}
		c.Sites++
	}
	if len(bad) > 0 {
		c.Fail("loopexit", key, desc, strings.Join(bad, "; "), c.W.Pos(fn.Pos()))
		return false
	}
	c.OK("loopexit", key, desc, c.W.Pos(lp.Header.Instrs[0].Pos()))
	return true
}

// searchLoops: anchored loops that legitimately stop before the range is exhausted, each with
// the reason; every other anchored loop must visit every element (NoEarlyExit).
var searchLoops = map[string]string{
	"(*common.SignedTransaction).TransactionType|inputs":       "search loop: the typed early returns are decided one by one by C01's classify rule",
	"(*common.SignedTransaction).validateInputs|inputs":        "the two mint/deposit early accepts, counted exactly (== 2) by C01's exempt rule; every other exit is a reject",
	"(*kernel.Node).NodesListWithoutState|scan":                "descending search: returns the newest sequence older than the threshold (gated by C11)",
	"(*kernel.Node).nodeSequenceWithoutState|all nodes":        "records are sorted by timestamp: the scan stops at the first record not before the threshold (gated by C11)",
}

// conditionalLoops: anchored loops that are legitimately skipped on some accepting path
// (inner loops, loops under a branch, idempotent early returns, single-element fast paths).
var conditionalLoops = map[string]string{
	"(*common.Transaction).validateOutputs|o.Keys":                  "inner loop over one output's keys",
	"(*kernel.CacheRound).validateSnapshot|s.Transactions":          "inner loop, entered per existing snapshot",
	"(*kernel.Chain).cosiSendAnnouncement|transactions":             "second scan, only on the duplicate-transaction path",
	"(*kernel.Chain).resetCosiStateForNewRound|agg transactions":    "inner loop per aggregator",
	"(*kernel.Node).buildUniversalMintTransaction|mints":            "the no-mint-possible path returns before distribution",
	"(*kernel.Node).validateKernelSnapshot|found":                   "single-transaction snapshots take the consensus-class path",
	"(*storage.BadgerStore).WriteRoundWork$1|credit apply":          "no credit when nothing is fresh or credit is off",
	"(*storage.BadgerStore).WriteRoundWork$1|credit build":          "no credit when nothing is fresh or credit is off",
	"(*storage.BadgerStore).WriteRoundWork$1|missing scan":          "replay branch only (round == off)",
	"(*storage.BadgerStore).WriteRoundWork$1|replay scan":           "replay branch only (round == off)",
	"(*storage.BadgerStore).WriteRoundWork$1|signers":               "inner loop per fresh snapshot",
	"common.validateUTXO|sigs[index]":                               "signature-map branch only (the aggregate branch has its own scan)",
	"crypto.BatchVerify|add loop":                                   "the single-pair fast path delegates to Key.Verify",
	"p2p.buildTransactionsPayload|txs":                              "rotated `for range n` loop: the zero-trip guard skips it for an empty list",
	"storage.finalizeTransaction|unspent outputs":                   "idempotent early return when the finalization record exists (C15)",
	"(*kernel.Node).popAndProcessCacheQueue|retrieved":              "the early returns precede the retrieval: nothing has been dequeued yet",
}

// loopVisitsAll records, once per check and loop, that an anchored loop visits every element.
func (c *Check) loopVisitsAll(fn *ssa.Function, lp *Loop) {
	if fn == nil || lp == nil {
		return
	}
	name := lp.Name
	if i := strings.Index(name, "#"); i >= 0 {
		name = name[:i]
	}
	k := shortName(fn) + "|" + name
	if c.loopSeen == nil {
		c.loopSeen = map[*ssa.BasicBlock]bool{}
	}
	if c.loopSeen[lp.Header] {
		return
	}
	c.loopSeen[lp.Header] = true
	if _, cond := conditionalLoops[k]; !cond {
		cut := map[Edge]bool{}
		for _, p := range lp.Header.Preds {
			cut[Edge{p.Index, lp.Header.Index}] = true
		}
		// tolerated shortcut: a path on which the ranged operand is known to be empty
		// (`if len(X) == 0 { return ... }` in front of `for range X`)
		if ranged := rangedOperand(lp); ranged != nil {
			for _, b := range fn.Blocks {
				iff, ok := b.Instrs[len(b.Instrs)-1].(*ssa.If)
				if !ok {
					continue
				}
				bo, ok := iff.Cond.(*ssa.BinOp)
				if !ok {
					continue
				}
				ln, ok := bo.X.(*ssa.Call)
				k, isC := constIntOf(bo.Y)
				if !ok || !isC || k != 0 || calleeName(&ln.Call) != "builtin:len" || !sameAccess(ln.Call.Args[0], ranged) {
					continue
				}
				switch bo.Op {
				case token.EQL, token.LEQ:
					cut[Edge{b.Index, b.Succs[0].Index}] = true
				case token.NEQ, token.GTR:
					cut[Edge{b.Index, b.Succs[1].Index}] = true
				}
			}
		}
		seen := reachable(fn, fn.Blocks[0], cut)
		skip := ""
		for _, r := range acceptReturns(fn) {
			if seen[r.Block().Index] && r.Block() != fn.Recover {
				skip = instrPos(c.W, r)
			}
		}
		c.Require(skip == "", "loopfirst", k+"|no accepting return bypasses the loop", "every accepting return of the function is reached through the scan of loop "+name+" (no shortcut accepts before the per-element checks)", "an accepting return at "+skip+" is reachable without entering the loop", c.W.Pos(fn.Pos()))
	}
	if _, ok := searchLoops[k]; ok {
		return
	}
	c.NoEarlyExit(fn, lp, nil, "anchored for-every-element loop")
}

// rangedOperand: X of `for ... range X` for slice range loops (header condition idx < len(X)).
func rangedOperand(lp *Loop) ssa.Value {
	if lp == nil || lp.Header == nil || len(lp.Header.Instrs) == 0 {
		return nil
	}
	iff, ok := lp.Header.Instrs[len(lp.Header.Instrs)-1].(*ssa.If)
	if !ok {
		return nil
	}
	bo, ok := iff.Cond.(*ssa.BinOp)
	if !ok {
		return nil
	}
	ln, ok := bo.Y.(*ssa.Call)
	if !ok || calleeName(&ln.Call) != "builtin:len" {
		return nil
	}
	return ln.Call.Args[0]
}

// HashSealedAfterWrites: in fn every hash.Hash.Write precedes every hash.Hash.Sum (the digest is
// taken after all ingredients were absorbed). Writes made after Sum do not reach the digest.
func (c *Check) HashSealedAfterWrites(fn *ssa.Function, what string) bool {
	if fn == nil {
		return false
	}
	writes := findCalls(fn, "iface:hash.Hash.Write")
	sums := findCalls(fn, "iface:hash.Hash.Sum")
	pos := func(ci ssa.CallInstruction) int {
		for i, ins := range ci.Block().Instrs {
			if ins == ci.(ssa.Instruction) {
				return i
			}
		}
		return -1
	}
	bad := ""
	for _, w := range writes {
		for _, s := range sums {
			wb, sb := w.Block(), s.Block()
			ok := false
			if wb == sb {
				ok = pos(w) < pos(s)
			} else {
				ok = wb.Dominates(sb)
			}
			if !ok {
				bad = instrPos(c.W, w.(ssa.Instruction))
			}
		}
	}
	c.Sites += len(writes) + len(sums)
	return c.Require(len(writes) > 0 && len(sums) > 0 && bad == "", "order", shortName(fn)+"|digest taken after every ingredient", "every hash.Write precedes the hash.Sum that produces the digest ("+what+")", fmt.Sprintf("writes=%d sums=%d; a Write at %q is not ordered before the Sum", len(writes), len(sums), bad), c.W.Pos(fn.Pos()))
}

// isLoopCondBlock: b evaluates a later operand of the loop's own compound condition: a cond.* block
// all of whose predecessors are the header or such blocks (a `break` fused into a cond.* block of a
// body `if a && b` has a body block among its predecessors and does not qualify).
func isLoopCondBlock(lp *Loop, b *ssa.BasicBlock, depth int) bool {
	if depth > 6 || !strings.HasPrefix(b.Comment, "cond.") {
		return false
	}
	for _, p := range b.Preds {
		if p == lp.Header {
			continue
		}
		if !isLoopCondBlock(lp, p, depth+1) {
			return false
		}
	}
	return len(b.Preds) > 0
}
