package main

import (
	"fmt"
	"go/token"
	"go/types"
	"os"
	"sort"
	"strings"

	"golang.org/x/tools/go/callgraph"
	"golang.org/x/tools/go/callgraph/cha"
	"golang.org/x/tools/go/callgraph/vta"
	"golang.org/x/tools/go/packages"
	"golang.org/x/tools/go/ssa"
	"golang.org/x/tools/go/ssa/ssautil"
)

const modPath = "github.com/MixinNetwork/mixin"

// World is the type-checked, SSA-built view of /repo's current working tree.
type World struct {
	Dir     string
	Fset    *token.FileSet
	Pkgs    map[string]*packages.Package // by path relative to module ("common", "kernel", ...)
	AllPkgs int
	Prog    *ssa.Program
	SSA     map[string]*ssa.Package
	fnIndex map[string]*ssa.Function
	modFns  []*ssa.Function
	cha     *callgraph.Graph
	vta     *callgraph.Graph
	GOARCH  string
}

func repoDir() string {
	if d := os.Getenv("MIXVET_REPO"); d != "" {
		return d
	}
	return "/repo"
}

// Load type-checks every package of the module (vendor mode, no tests) and builds SSA.
// Any load or type error is fatal: a static tool only sees what was parsed.
func Load(dir, goarch string) (*World, error) {
	// pinned offline toolchain: go1.26.8 (the repo's go.mod needs >= 1.26.5)
	if _, err := os.Stat("/opt/veriftools/go1.26.8/bin/go"); err == nil {
		os.Setenv("PATH", "/opt/veriftools/go1.26.8/bin:"+os.Getenv("PATH"))
	}
	env := append(os.Environ(), "GOFLAGS=-mod=vendor", "GOWORK=off", "GOPROXY=off", "GOSUMDB=off", "GOTOOLCHAIN=local")
	if goarch != "" {
		env = append(env, "GOARCH="+goarch, "CGO_ENABLED=0")
	}
	fset := token.NewFileSet()
	cfg := &packages.Config{
		Mode:  packages.LoadAllSyntax,
		Dir:   dir,
		Env:   env,
		Fset:  fset,
		Tests: false,
	}
	if ov := os.Getenv("MIXVET_OVERLAY"); ov != "" {
		// <original file>=<replacement file>: analyse a single-file variant without copying the tree
		if i := strings.Index(ov, "="); i > 0 {
			data, rerr := os.ReadFile(ov[i+1:])
			if rerr != nil {
				return nil, fmt.Errorf("overlay: %v", rerr)
			}
			cfg.Overlay = map[string][]byte{ov[:i]: data}
		}
	}
	initial, err := packages.Load(cfg, "./...")
	if err != nil {
		return nil, fmt.Errorf("packages.Load: %v", err)
	}
	if len(initial) == 0 {
		return nil, fmt.Errorf("no packages loaded from %s", dir)
	}
	nerr := 0
	all := 0
	packages.Visit(initial, nil, func(p *packages.Package) {
		all++
		for _, e := range p.Errors {
			if strings.HasPrefix(p.PkgPath, modPath) {
				fmt.Fprintf(os.Stderr, "load error: %s: %v\n", p.PkgPath, e)
				nerr++
			}
		}
	})
	if nerr > 0 {
		return nil, fmt.Errorf("%d load/type errors in module packages", nerr)
	}
	w := &World{Dir: dir, Fset: fset, Pkgs: map[string]*packages.Package{}, SSA: map[string]*ssa.Package{}, AllPkgs: all, GOARCH: goarch}
	prog, _ := ssautil.AllPackages(initial, ssa.InstantiateGenerics)
	w.Prog = prog
	prog.Build()
	for _, p := range initial {
		if !strings.HasPrefix(p.PkgPath, modPath) {
			continue
		}
		rel := strings.TrimPrefix(strings.TrimPrefix(p.PkgPath, modPath), "/")
		if rel == "" {
			rel = "main"
		}
		w.Pkgs[rel] = p
		w.SSA[rel] = prog.Package(p.Types)
	}
	for _, must := range []string{"common", "crypto", "kernel", "storage", "p2p", "config"} {
		if w.SSA[must] == nil {
			return nil, fmt.Errorf("package %s not loaded", must)
		}
	}
	w.fnIndex = map[string]*ssa.Function{}
	for fn := range ssautil.AllFunctions(prog) {
		if fn.Pkg == nil && fn.Parent() == nil && fn.Origin() == nil {
			// wrappers / synthetic
		}
		k := shortName(fn)
		if strings.Contains(fn.String(), modPath) && fn.Synthetic == "" {
			w.modFns = append(w.modFns, fn)
		}
		if old, ok := w.fnIndex[k]; ok && old.Synthetic == "" {
			continue
		}
		w.fnIndex[k] = fn
	}
	sort.Slice(w.modFns, func(i, j int) bool { return w.modFns[i].String() < w.modFns[j].String() })
	return w, nil
}

// shortName: "(*common.SignedTransaction).validateInputs", "common.validateUTXO",
// "(*storage.BadgerStore).LockUTXOs$1".
func shortName(fn *ssa.Function) string {
	s := fn.String()
	s = strings.ReplaceAll(s, modPath+"/", "")
	s = strings.ReplaceAll(s, modPath+".", "main.")
	return s
}

// Fn resolves a function by its short name; nil if absent.
func (w *World) Fn(name string) *ssa.Function { return w.fnIndex[name] }

// ModuleFuncs lists source functions of the module (including closures).
func (w *World) ModuleFuncs() []*ssa.Function { return w.modFns }

func (w *World) Pos(p token.Pos) string {
	if !p.IsValid() {
		return "?"
	}
	pp := w.Fset.Position(p)
	f := strings.TrimPrefix(pp.Filename, w.Dir+"/")
	return fmt.Sprintf("%s:%d", f, pp.Line)
}

func (w *World) CHA() *callgraph.Graph {
	if w.cha == nil {
		w.cha = cha.CallGraph(w.Prog)
	}
	return w.cha
}

func (w *World) VTA() *callgraph.Graph {
	if w.vta == nil {
		w.vta = vta.CallGraph(ssautil.AllFunctions(w.Prog), w.CHA())
	}
	return w.vta
}

// Obj looks up a package-level object (const, var, func, type) in a module package.
func (w *World) Obj(pkg, name string) types.Object {
	p := w.Pkgs[pkg]
	if p == nil {
		return nil
	}
	return p.Types.Scope().Lookup(name)
}

// inModule reports whether fn is declared in the module (not vendor/stdlib).
func inModule(fn *ssa.Function) bool {
	if fn == nil {
		return false
	}
	if fn.Pkg != nil {
		return strings.HasPrefix(fn.Pkg.Pkg.Path(), modPath)
	}
	if fn.Parent() != nil {
		return inModule(fn.Parent())
	}
	if o := fn.Origin(); o != nil {
		return inModule(o)
	}
	return strings.Contains(fn.String(), modPath)
}
