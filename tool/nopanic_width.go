package main

import (
	"go/token"
	"go/types"

	"golang.org/x/tools/go/ssa"
)

// Integer width model for the no-panic engine. Conversions are looked through only when they
// preserve the value; additions/multiplications in a type narrower than the platform word are
// treated as wrapping unless a bound excludes it.
//
// Stated assumption (trusted base): the length of any in-memory slice is < 2^31, and int / uint /
// int64 / uint64 / uintptr arithmetic on lengths and indices does not overflow.

// wordBits: value-range reasoning models the 64-bit targets the project ships (int = int64).
// The GOARCH=386 pass of the thorough tier exists to cover build-tagged files' structure; it
// does not claim the absence of 32-bit truncation panics (int(uint32) can be negative there).
func wordBits() int { return 64 }

// intShape returns (isInteger, signed, bits).
func intShape(t types.Type) (bool, bool, int) {
	b, ok := t.Underlying().(*types.Basic)
	if !ok || b.Info()&types.IsInteger == 0 {
		return false, false, 0
	}
	switch b.Kind() {
	case types.Int8:
		return true, true, 8
	case types.Int16:
		return true, true, 16
	case types.Int32:
		return true, true, 32
	case types.Int64:
		return true, true, 64
	case types.Int, types.UntypedInt, types.UntypedRune:
		return true, true, wordBits()
	case types.Uint8:
		return true, false, 8
	case types.Uint16:
		return true, false, 16
	case types.Uint32:
		return true, false, 32
	case types.Uint64:
		return true, false, 64
	case types.Uint, types.Uintptr:
		return true, false, wordBits()
	}
	return false, false, 0
}

// convPreserves: converting a value of type src to dst never changes the mathematical value.
func convPreserves(src, dst types.Type, srcNonNeg bool) bool {
	okS, sSigned, sBits := intShape(src)
	okD, dSigned, dBits := intShape(dst)
	if !okS || !okD {
		return !okS && !okD // non-integer conversions ([]byte <-> string, named types) are not value-changing for our terms
	}
	switch {
	case dSigned && sSigned:
		return sBits <= dBits
	case dSigned && !sSigned:
		return sBits < dBits
	case !dSigned && !sSigned:
		return sBits <= dBits
	default: // signed -> unsigned
		return srcNonNeg && sBits <= dBits+1
	}
}

// stripConvNP looks through ChangeType and value-preserving integer conversions only.
func stripConvNP(v ssa.Value) ssa.Value {
	for {
		switch x := v.(type) {
		case *ssa.Convert:
			if convPreserves(x.X.Type(), x.Type(), false) {
				v = x.X
				continue
			}
			// signed -> unsigned of a syntactically non-negative operand
			if _, sSigned, _ := intShape(x.X.Type()); sSigned && nonNegNoConv(x.X) && convPreserves(x.X.Type(), x.Type(), true) {
				v = x.X
				continue
			}
			return v
		case *ssa.ChangeType:
			v = x.X
			continue
		}
		return v
	}
}

// nonNegNoConv: len/cap results and non-negative constants (used only to justify signed->unsigned).
func nonNegNoConv(v ssa.Value) bool {
	switch x := v.(type) {
	case *ssa.Const:
		c, ok := constIntOf(x)
		return ok && c >= 0
	case *ssa.Call:
		n := calleeName(&x.Call)
		return n == "builtin:len" || n == "builtin:cap"
	}
	return false
}

// wideArith: arithmetic in this type is assumed not to overflow on lengths/indices.
func wideArith(t types.Type) bool {
	ok, _, bits := intShape(t)
	if !ok {
		return false
	}
	b, _ := t.Underlying().(*types.Basic)
	switch b.Kind() {
	case types.Int, types.Uint, types.Uintptr, types.Int64, types.Uint64, types.UntypedInt:
		return true
	}
	return bits >= 64
}

// maxOfType: largest value of an integer type (bits < 64).
func maxOfType(t types.Type) int64 {
	_, signed, bits := intShape(t)
	if bits >= 64 {
		return int64(^uint64(0) >> 1)
	}
	if signed {
		return int64(1)<<(bits-1) - 1
	}
	return int64(1)<<bits - 1
}

// typeUpper: an upper bound of v that follows from its (pre-conversion) type alone:
// uint8 -> 255, uint16 -> 65535, ... ; looks through widening conversions.
func typeUpper(v ssa.Value) (int64, bool) {
	v = stripConvNP(v)
	ok, _, bits := intShape(v.Type())
	if !ok || bits >= 64 {
		return 0, false
	}
	return maxOfType(v.Type()), true
}

// narrowAddMayWrap reports whether bo (ADD/MUL/SHL in a narrow type) can wrap, judging from
// operand type bounds and constants only.
func narrowAddMayWrap(bo *ssa.BinOp) bool {
	if wideArith(bo.Type()) {
		return false
	}
	ok, _, _ := intShape(bo.Type())
	if !ok {
		return false
	}
	max := maxOfType(bo.Type())
	ub := func(v ssa.Value) (int64, bool) {
		if c, isC := constIntOf(stripConvNP(v)); isC {
			return c, c >= 0
		}
		return typeUpper(v)
	}
	x, okx := ub(bo.X)
	y, oky := ub(bo.Y)
	if !okx || !oky {
		return true
	}
	switch bo.Op {
	case token.ADD:
		return x > max-y
	case token.MUL:
		return y != 0 && x > max/y
	case token.SUB:
		return true
	}
	return true
}
