package main

import (
	"go/token"
	"strings"

	"golang.org/x/tools/go/ssa"
)

func init() { register("C03", propC03) }

const (
	txnGet    = "(*github.com/dgraph-io/badger/v4.Txn).Get"
	txnSet    = "(*github.com/dgraph-io/badger/v4.Txn).Set"
	txnDelete = "(*github.com/dgraph-io/badger/v4.Txn).Delete"
)

// Global matches a load of the named package-level variable, e.g. badger.ErrKeyNotFound.
func Global(name string) VM {
	return func(v ssa.Value) bool {
		if u, ok := v.(*ssa.UnOp); ok && u.Op == token.MUL {
			v = u.X
		}
		g, ok := v.(*ssa.Global)
		return ok && g.Name() == name
	}
}

var errKeyNotFound = Global("ErrKeyNotFound")

// lockAPIs: exported store methods that reserve or materialise lock slots.
var c03LockAPIs = []string{
	"(*storage.BadgerStore).LockUTXOs",
	"(*storage.BadgerStore).LockDepositInput",
	"(*storage.BadgerStore).LockMintInput",
	"(*storage.BadgerStore).LockGhostKeys",
	"(*storage.BadgerStore).WriteSnapshot",
}

func propC03(c *Check) {
	c.Explain = "Decides that every mutation of a lock slot happens inside one critical section and one Badger write transaction, and that the holder comparison cannot be bypassed: (1) LockUTXOs/LockDepositInput/LockMintInput/LockGhostKeys/WriteSnapshot take s.mutex.Lock() with deferred Unlock before opening exactly one read-write transaction, and nothing they reach opens another; (2) who-may-write: UTXO keys only by lockUTXO/writeUTXO, DEPOSIT only by writeDepositLock, MINTUNIVERSAL only by writeMintDistribution, TRANSACTION deleted only by pruneTransaction; every exported store method whose effects include these families is one of the locked APIs (LoadGenesis exempt: single-threaded start-up; WriteTransaction writes TRANSACTION bodies only); (3) in lockUTXO and the LockDepositInput/LockMintInput closures the write of the new holder is reachable only through 'holder empty', 'holder equal' or the success edge of pruneTransaction(txn, oldHolder) on the same txn, and pruneTransaction is reachable only through the fork==true edge; (4) pruneTransaction deletes the TRANSACTION key only on Get(FINALIZATION key)==ErrKeyNotFound and rejects when the finalization exists; (5) DepositData.UniqueKey formats chain, transaction id and index."
	c.NotCov = "interleavings as such (Go mutex and Badger transaction semantics are trusted): the schedule quantifier is reduced to 'all mutations of a slot are inside one critical section and one atomic write'."
	c.Floor(28)
	w := c.W
	e := w.Effects()

	for _, n := range c03LockAPIs {
		f := c.F(n)
		c.EntryLock(f, "mutex", true)
		c.SingleWriteTxn(e, f, "snapshotsDB")
	}
	// the opening of the transaction happens after the lock (lock is in the entry block, checked above)

	c.WhoWrites(e, "graphPrefixUTXO", []string{"set", "delete"}, []string{"storage.lockUTXO", "storage.writeUTXO"}, "lock holder and materialisation")
	c.WhoWrites(e, "graphPrefixDeposit", []string{"set", "delete"}, []string{"storage.writeDepositLock"}, "deposit lock")
	c.WhoWrites(e, "graphPrefixMint", []string{"set", "delete"}, []string{"storage.writeMintDistribution"}, "mint batch lock")
	c.WhoWrites(e, "graphPrefixTransaction", []string{"delete"}, []string{"storage.pruneTransaction"}, "body removal only by the finalization-checked prune")

	// exported methods reaching lock-slot writes must be the locked APIs
	locked := map[string]bool{}
	for _, n := range c03LockAPIs {
		locked[n] = true
	}
	exempt := map[string]string{"(*storage.BadgerStore).LoadGenesis": "single-threaded start-up before any admission"}
	var bad []string
	nAPI := 0
	for _, fn := range w.ModuleFuncs() {
		n := shortName(fn)
		if !strings.HasPrefix(n, "(*storage.BadgerStore).") || strings.Contains(n, "$") || fn.Object() == nil || !fn.Object().Exported() {
			continue
		}
		es := effectSet(e.Transitive(fn, true), "set", "delete")
		touches := false
		for k := range es {
			if k == "set:graphPrefixUTXO" || k == "set:graphPrefixDeposit" || k == "set:graphPrefixMint" || k == "set:graphPrefixGhost" || k == "delete:graphPrefixTransaction" {
				touches = true
			}
		}
		if !touches {
			continue
		}
		nAPI++
		if !locked[n] && exempt[n] == "" {
			bad = append(bad, n)
		}
	}
	c.Sites += len(w.ModuleFuncs())
	c.Require(len(bad) == 0 && nAPI >= 5, "lockedapi", "storage|slot writers hold the mutex", "every exported BadgerStore method whose write effects include UTXO/DEPOSIT/MINT/GHOST sets or TRANSACTION deletes is one of the five mutex-holding APIs (LoadGenesis exempt)", "unlocked API reaches slot writes: "+strings.Join(bad, ", "))

	// ---- lockUTXO
	if f := c.F("storage.lockUTXO"); f != nil {
		sets := callInstrs(findCalls(f, txnSet))
		out := Extract(0, Call("common.UnmarshalUTXO"))
		prune := Call("storage.pruneTransaction", Param("txn"), Path(out, "LockHash"))
		c.MustPassAny(f, nil, "holder empty | holder == tx | prune succeeded", []Gate{
			{Name: "out.LockHash.HasValue() false", RejectOnTrue: true, Cond: Call("(crypto.Hash).HasValue", Path(out, "LockHash"))},
			{Name: "out.LockHash != tx false", RejectOnTrue: true, Cond: BinEither(token.NEQ, Path(out, "LockHash"), Param("tx"))},
			{Name: "pruneTransaction(txn, out.LockHash) != nil => reject", RejectOnTrue: true, Cond: BinEither(token.NEQ, prune, ConstNil)},
		}, sets, "writing the new lock holder")
		c.MustPass(f, Gate{Name: "fork true", RejectOnTrue: false, Cond: Param("fork")}, valueInstrs(findValues(f, prune)), "displacing a pending holder (pruneTransaction)")
		// the key written is the key read, value is the re-marshalled record with LockHash = tx
		okk := len(sets) == 1
		if okk {
			a := sets[0].(ssa.CallInstruction).Common().Args
			okk = Param("txn")(a[0]) && Call("storage.graphUtxoKey", Param("hash"), Param("index"))(a[1])
		}
		c.Require(okk, "provenance", shortName(f)+"|Set(key)", "the holder is written under graphUtxoKey(hash, index) through the caller's txn", "key or transaction operand changed")
		st := false
		eachInstr(f, func(b *ssa.BasicBlock, ins ssa.Instruction) {
			if s, ok := ins.(*ssa.Store); ok && Param("tx")(s.Val) {
				if r, p := accessPath(s.Addr); out(r) && strings.Join(p, ".") == "LockHash" {
					st = true
				}
			}
		})
		c.Require(st, "shape", shortName(f)+"|out.LockHash = tx", "the record written carries LockHash = tx", "holder assignment missing")
		c.MustPass(f, Gate{Name: "txn.Get(key) err != nil => reject", RejectOnTrue: true, Cond: BinEither(token.NEQ, Extract(1, Call(txnGet)), ConstNil)}, sets, "the write (a missing UTXO cannot be locked)")
	}

	// ---- deposit / mint closures
	type lockClosure struct{ fn, read, write, holderDesc string }
	for _, lc := range []lockClosure{
		{"(*storage.BadgerStore).LockDepositInput$1", "storage.readDepositInput", "storage.writeDepositLock", "bytes.Equal(ival, tx[:])"},
		{"(*storage.BadgerStore).LockMintInput$1", "storage.readMintInput", "storage.writeMintDistribution", "dist.Transaction == tx && dist.Amount.Cmp(mint.Amount) == 0"},
	} {
		f := c.F(lc.fn)
		if f == nil {
			continue
		}
		writes := callInstrs(findCalls(f, lc.write))
		rerr := Extract(1, Call(lc.read, Param("txn")))
		prune := Call("storage.pruneTransaction", Param("txn"))
		c.MustPassAny(f, nil, "slot empty | prune succeeded", []Gate{
			{Name: "read err == ErrKeyNotFound", RejectOnTrue: false, Cond: BinEither(token.EQL, rerr, errKeyNotFound)},
			{Name: "pruneTransaction(txn, holder) != nil => reject", RejectOnTrue: true, Cond: BinEither(token.NEQ, prune, ConstNil)},
		}, writes, "writing the new lock holder")
		c.MustPass(f, Gate{Name: "fork true", RejectOnTrue: false, Cond: Param("fork")}, valueInstrs(findValues(f, prune)), "displacing a pending holder (pruneTransaction)")
		c.MustPass(f, Gate{Name: "read err != nil => reject", RejectOnTrue: true, Cond: BinEither(token.NEQ, rerr, ConstNil)}, valueInstrs(findValues(f, prune)), "pruning")
		// prune target derives from the stored holder
		okp := false
		for _, v := range findValues(f, prune) {
			if Has(Extract(0, Call(lc.read)))(v.(*ssa.Call).Call.Args[1]) {
				okp = true
			}
		}
		c.Require(okp, "provenance", lc.fn+"|prune target", "the transaction pruned is the stored holder read from the slot", "prune target does not derive from the stored holder")
		// idempotent re-reservation: a nil return that is not a write exists under the equality test
		var idem []ssa.Instruction
		for _, r := range allReturns(f) {
			if ConstNil(r.Results[0]) {
				idem = append(idem, r)
			}
		}
		var eq Gate
		if strings.Contains(lc.fn, "Deposit") {
			eq = Gate{Name: "bytes.Equal(ival, tx[:]) true", RejectOnTrue: false, Cond: Call("bytes.Equal", Extract(0, Call(lc.read)), Has(Param("tx")))}
		} else {
			eq = Gate{Name: "dist.Transaction == tx true", RejectOnTrue: false, Cond: BinEither(token.EQL, Path(Extract(0, Call(lc.read)), "Transaction"), Param("tx"))}
		}
		c.MustPass(f, eq, idem, "the idempotent no-op return")
		// different holder && !fork rejects: every write/prune is cut off when the equal-edge and fork-edge are removed together with not-found
		for _, wr := range writes {
			a := wr.(ssa.CallInstruction).Common().Args
			c.Require(Param("txn")(a[0]) && Param("tx")(a[2]), "provenance", lc.fn+"|write operands", "the new holder written is tx, through the closure's txn", "operands changed", instrPos(w, wr))
		}
	}
	if f := c.F("(*storage.BadgerStore).LockMintInput$1"); f != nil {
		var idem []ssa.Instruction
		for _, r := range allReturns(f) {
			if ConstNil(r.Results[0]) {
				idem = append(idem, r)
			}
		}
		dist := Extract(0, Call("storage.readMintInput"))
		c.MustPass(f, Gate{Name: "dist.Amount.Cmp(mint.Amount) == 0 true", RejectOnTrue: false,
			Cond: Bin(token.EQL, Call("(common.Integer).Cmp", Path(dist, "Amount"), Path(Param("mint"), "Amount")), ConstInt(0))}, idem, "the idempotent no-op return")
	}

	// ---- LockUTXOs closure: every input is locked through the same txn
	if f := c.F("(*storage.BadgerStore).LockUTXOs$1"); f != nil {
		lp := c.RangeLoop(f, "inputs", Param("inputs"))
		c.LoopGate(f, lp, Gate{Name: "lockUTXO(txn, in.Hash, in.Index, tx, fork) != nil => reject", RejectOnTrue: true,
			Cond: BinEither(token.NEQ, Call("storage.lockUTXO", Param("txn"), Path(Param("inputs"), "[].Hash"), Path(Param("inputs"), "[].Index"), Param("tx"), Param("fork")), ConstNil)}, "every input is locked in the one atomic update, failure aborts it")
	}

	// ---- pruneTransaction
	if f := c.F("storage.pruneTransaction"); f != nil {
		dels := callInstrs(findCalls(f, txnDelete))
		gerr := Extract(1, Call(txnGet, Param("txn"), Call("storage.graphFinalizationKey", Param("hash"))))
		c.MustPass(f, Gate{Name: "Get(FINALIZATION key) err == nil => reject", RejectOnTrue: true, Cond: BinEither(token.EQL, gerr, ConstNil)}, dels, "deleting a stored body")
		c.MustPass(f, Gate{Name: "err != ErrKeyNotFound => reject", RejectOnTrue: true, Cond: BinEither(token.NEQ, gerr, errKeyNotFound)}, dels, "deleting a stored body")
		okd := len(dels) == 1
		if okd {
			a := dels[0].(ssa.CallInstruction).Common().Args
			okd = Param("txn")(a[0]) && Call("storage.graphTransactionKey", Param("hash"))(a[1])
		}
		c.Require(okd, "provenance", shortName(f)+"|Delete(key)", "the deleted key is graphTransactionKey(hash) through the caller's txn", "operands changed")
		// finalized => non-nil error returned
		var rej int
		for _, r := range allReturns(f) {
			if isRejectReturn(f, r) && dominatedByBranch(f, r.Block(), BinEither(token.EQL, gerr, ConstNil), true) {
				rej++
			}
		}
		c.Require(rej == 1, "shape", shortName(f)+"|finalized refuses", "when the finalization record exists pruneTransaction returns a non-nil error", "the refusal return is gone")
	}

	// ---- UniqueKey
	if f := c.F("(*common.DepositData).UniqueKey"); f != nil {
		ok := false
		for _, v := range findValues(f, Call("fmt.Sprintf")) {
			a := v.(*ssa.Call).Call.Args[1]
			if HasAll(Path(Param("d"), "Chain"), Path(Param("d"), "Transaction"), Path(Param("d"), "Index"))(a) {
				ok = true
			}
		}
		c.Require(ok, "provenance", shortName(f)+"|ingredients", "the deposit slot key is derived from chain, transaction id and output index", "an ingredient is missing from the unique key")
	}
	if f := c.F("storage.graphDepositKey"); f != nil {
		rets := allReturns(f)
		c.Require(len(rets) == 1 && Has(Call("(*common.DepositData).UniqueKey", Param("deposit")))(rets[0].Results[0]), "provenance", shortName(f)+"|uses UniqueKey", "the DEPOSIT key is built from deposit.UniqueKey()", "key no longer derives from UniqueKey")
	}
}
