package main

import (
	"go/token"
	"go/types"
	"strings"

	"golang.org/x/tools/go/ssa"
)

func init() { register("C12", propC12) }

func propC12(c *Check) {
	c.Explain = "Decides the lock discipline and single-use shape of the CoSi nonce: (1) lockset: every access to nonce.{used,challenge,response,random} outside the constructor lies in a function where n.Lock() dominates the access and the matching Unlock is deferred (the only such function is respond); (2) in respond the secret-consuming call signature.Response(private, n.random, ...) is reachable only through the !n.used edge, and on that path n.used=true, n.challenge=<this challenge> and n.response are stored before the accepting return; the used path returns the stored response only past n.challenge != challengeBytes => ErrCosiNonceReuse; the challenge compared and stored is computed from (publics, message) before the lock; (3) CosiNonce holds a *nonce (copies share state and lock) and no value of type nonce is ever copied (no load/alloc of the struct by value outside the constructor literal); nonce.random is read only by respond; (4) kernel: cosiRetrieveRandom hands out a fresh nonce from CosiRandoms only after retaining it under the snapshot hash and deleting it from CosiRandoms; a retained nonce is handed out again only if its commitment equals the challenge commitment."
	c.NotCov = "schedules as such: the quantifier over goroutines and handle copies is reduced to lock discipline plus the single-use shape (Go mutex semantics trusted)."
	c.Floor(14)
	w := c.W

	guarded := map[string]bool{"used": true, "challenge": true, "response": true, "random": true}
	accessors := map[string]int{}
	var bad []string
	for _, fn := range w.ModuleFuncs() {
		eachInstr(fn, func(b *ssa.BasicBlock, ins ssa.Instruction) {
			fa, ok := ins.(*ssa.FieldAddr)
			if !ok {
				return
			}
			st, tn := structOf(fa.X.Type())
			if st == nil || tn != "crypto.nonce" || !guarded[st.Field(fa.Field).Name()] {
				return
			}
			c.Sites++
			if _, fresh := fa.X.(*ssa.Alloc); fresh {
				return // constructor literal: not yet shared
			}
			accessors[shortName(fn)]++
			// a dominating Lock on the same object
			locked := false
			eachInstr(fn, func(b2 *ssa.BasicBlock, i2 ssa.Instruction) {
				cl, ok := i2.(*ssa.Call)
				if !ok || calleeName(&cl.Call) != "(*sync.Mutex).Lock" {
					return
				}
				root, _ := accessPath(cl.Call.Args[0])
				if root != fa.X {
					return
				}
				if b2 == b && instrIndex(i2) < instrIndex(ins) || b2 != b && b2.Dominates(b) {
					// deferred unlock right after
					for _, i3 := range b2.Instrs[instrIndex(i2)+1:] {
						if d, ok := i3.(*ssa.Defer); ok && calleeName(&d.Call) == "(*sync.Mutex).Unlock" {
							locked = true
						}
						if _, isCall := i3.(ssa.CallInstruction); isCall {
							break
						}
					}
				}
			})
			if !locked {
				bad = append(bad, shortName(fn)+" accesses nonce."+st.Field(fa.Field).Name()+" at "+instrPos(w, ins)+" without holding the nonce lock")
			}
		})
	}
	c.Require(len(bad) == 0 && accessors["(*crypto.nonce).respond"] >= 6, "lockset", "crypto.nonce|guarded fields", "every access to nonce.used/challenge/response/random happens under n.Lock() with deferred Unlock", strings.Join(bad, "; "))
	var others []string
	for k := range accessors {
		if k != "(*crypto.nonce).respond" {
			others = append(others, k)
		}
	}
	c.Require(len(others) == 0, "whoaccesses", "crypto.nonce|single accessor", "the nonce state is touched only by respond (and the constructor literal)", "other accessors: "+strings.Join(others, ", "))

	if f := c.F("(*crypto.nonce).respond"); f != nil {
		n := Param("n")
		resp := findCalls(f, "(*crypto.CosiSignature).Response")
		ok := len(resp) == 1 && Path(n, "random")(resp[0].Common().Args[2]) && Param("private")(resp[0].Common().Args[1]) && Param("publics")(resp[0].Common().Args[3]) && Param("message")(resp[0].Common().Args[4])
		c.Require(ok, "shape", shortName(f)+"|one secret use", "the nonce secret is consumed by exactly one call signature.Response(private, n.random, publics, message)", "secret use changed")
		c.MustPass(f, Gate{Name: "n.used => cached path", RejectOnTrue: true, Cond: Path(n, "used")}, callInstrs(resp), "consuming the nonce secret")
		chal := Call("(*crypto.CosiSignature).Challenge", Param("signature"), Param("publics"), Param("message"))
		cb := func(v ssa.Value) bool { // challengeBytes cell filled from challenge.Bytes()
			return Has(Call("(*filippo.io/edwards25519.Scalar).Bytes", Extract(0, chal)))(v)
		}
		var usedRets, freshRets []ssa.Instruction
		for _, r := range acceptReturns(f) {
			if ConstNil(retValue(r.(*ssa.Return), 0)) {
				continue
			}
			if dominatedByBranch(f, r.Block(), Path(n, "used"), true) {
				usedRets = append(usedRets, r)
			} else {
				freshRets = append(freshRets, r)
			}
		}
		c.Require(len(usedRets) == 1 && len(freshRets) == 1, "shape", shortName(f)+"|two accepts", "one cached-response accept and one fresh accept", "found "+itoa(len(usedRets))+"/"+itoa(len(freshRets)))
		c.MustPass(f, Gate{Name: "n.challenge != challengeBytes => ErrCosiNonceReuse", RejectOnTrue: true, Cond: BinEither(token.NEQ, Path(n, "challenge"), cb)}, usedRets, "returning the cached response")
		// reuse error value
		okr := false
		for _, r := range allReturns(f) {
			if Global("ErrCosiNonceReuse")(retValue(r, 1)) && dominatedByBranch(f, r.Block(), BinEither(token.NEQ, Path(n, "challenge"), cb), true) {
				okr = true
			}
		}
		c.Require(okr, "shape", shortName(f)+"|reuse refused", "a different challenge on a used nonce returns ErrCosiNonceReuse", "refusal changed")
		// stores before the fresh accept
		stored := map[string]*ssa.Store{}
		eachInstr(f, func(b *ssa.BasicBlock, ins ssa.Instruction) {
			if st, ok := ins.(*ssa.Store); ok {
				if r, p := accessPath(st.Addr); n(r) && len(p) == 1 {
					switch p[0] {
					case "used":
						if ConstBool(true)(st.Val) {
							stored["used"] = st
						}
					case "challenge":
						if cb(st.Val) {
							stored["challenge"] = st
						}
					case "response":
						if Has(Extract(0, Call("(*crypto.CosiSignature).Response")))(st.Val) {
							stored["response"] = st
						}
					}
				}
			}
		})
		oks := len(stored) == 3 && len(freshRets) == 1
		if oks {
			for _, st := range stored {
				if !st.Block().Dominates(freshRets[0].Block()) {
					oks = false
				}
			}
		}
		c.Require(oks, "order", shortName(f)+"|bind before return", "n.used=true, n.challenge=<challenge> and n.response=<response> are stored before the fresh response is returned", "binding stores missing or not on the accept path")
		c.MustPass(f, Gate{Name: "signature.Response err != nil => reject", RejectOnTrue: true, Cond: BinEither(token.NEQ, Extract(1, Call("(*crypto.CosiSignature).Response")), ConstNil)}, freshRets, "the fresh accept")
		// cached response returned is n.response
		if len(usedRets) == 1 {
			c.Require(Has(Path(n, "response"))(retValue(usedRets[0].(*ssa.Return), 0)), "provenance", shortName(f)+"|cached value", "the repeated challenge returns the stored response", "cached value changed")
		}
		// challenge is computed before the lock
		locks := findCalls(f, "(*sync.Mutex).Lock")
		okl := len(locks) == 1
		if okl {
			for _, v := range findValues(f, chal) {
				ins := v.(ssa.Instruction)
				if !(ins.Block() == locks[0].Block() && instrIndex(ins) < instrIndex(locks[0]) || ins.Block().Dominates(locks[0].Block()) && ins.Block() != locks[0].Block()) {
					okl = false
				}
			}
		}
		c.Require(okl, "order", shortName(f)+"|challenge then lock", "the challenge is derived from (publics, message) before the critical section", "ordering changed")
	}
	// type-level: CosiNonce.state is a pointer; no by-value nonce
	if o := w.Obj("crypto", "CosiNonce"); o != nil {
		st, _ := o.Type().Underlying().(*types.Struct)
		okp := false
		if st != nil {
			for i := 0; i < st.NumFields(); i++ {
				t := typeShort(st.Field(i).Type())
				if t == "*crypto.nonce" {
					okp = true
				}
				if t == "crypto.nonce" || t == "sync.Mutex" {
					okp = false
					break
				}
			}
		}
		c.Require(okp, "typefact", "crypto.CosiNonce|pointer state", "CosiNonce holds only a pointer to the shared nonce state (copies share lock and state)", "handle layout changed")
	}
	var copies []string
	for _, fn := range w.ModuleFuncs() {
		eachInstr(fn, func(b *ssa.BasicBlock, ins ssa.Instruction) {
			v, ok := ins.(ssa.Value)
			if !ok {
				return
			}
			if typeShort(v.Type()) == "crypto.nonce" {
				copies = append(copies, shortName(fn)+" at "+instrPos(w, ins))
			}
		})
	}
	c.Sites += len(w.ModuleFuncs())
	c.Require(len(copies) == 0, "typefact", "crypto.nonce|never copied", "no instruction produces a nonce struct by value (the mutex and state are never copied)", strings.Join(copies, "; "))

	if c.Tier == "thorough" {
		c.vetCopylocks("./crypto/", "./kernel/")
	}
	// kernel side
	if f := c.F("(*kernel.Chain).cosiRetrieveRandom"); f != nil {
		var fromPool, fromUsed []ssa.Instruction
		pool := func(v ssa.Value) bool {
			l, ok := v.(*ssa.Lookup)
			return ok && Has(Path(Param("chain"), "CosiRandoms"))(l.X)
		}
		used := func(v ssa.Value) bool {
			l, ok := v.(*ssa.Lookup)
			return ok && Path(Param("chain"), "UsedRandoms")(l.X) && Param("snap")(l.Index)
		}
		for _, r := range allReturns(f) {
			v := retValue(r, 0)
			switch {
			case ConstNil(v):
			case pool(v):
				fromPool = append(fromPool, r)
			case used(v):
				fromUsed = append(fromUsed, r)
			default:
				fromPool = append(fromPool, r) // unknown source: must satisfy the pool rule
			}
		}
		c.Require(len(fromPool) == 1 && len(fromUsed) == 1, "shape", shortName(f)+"|sources", "a nonce is handed out from the fresh pool or from the retained map", "found pool="+itoa(len(fromPool))+" retained="+itoa(len(fromUsed)))
		ret := findCalls(f, "(*kernel.Chain).retainUsedCosiNonce")
		del := findCalls(f, "builtin:delete")
		ok := len(ret) == 1 && len(del) == 1 && len(fromPool) == 1
		if ok {
			ok = Param("snap")(ret[0].Common().Args[1]) && pool(ret[0].Common().Args[2]) && Path(Param("chain"), "CosiRandoms")(del[0].Common().Args[0]) && Path(Param("challenge"), "")(del[0].Common().Args[1]) &&
				ret[0].Block().Dominates(fromPool[0].Block()) && del[0].Block().Dominates(fromPool[0].Block())
		}
		c.Require(ok, "order", shortName(f)+"|retain and delete", "a pooled nonce is retained under the snapshot hash and deleted from CosiRandoms before it is handed out", "retain/delete missing or after the return")
		c.MustPass(f, Gate{Name: "nonce.Public() == *challenge", RejectOnTrue: false, Cond: BinEither(token.EQL, Call("(*crypto.CosiNonce).Public", used), Path(Param("challenge"), ""))}, fromUsed, "handing out a retained nonce again")
	}
	if f := c.F("(*kernel.Chain).retainUsedCosiNonce"); f != nil {
		okk := false
		eachInstr(f, func(b *ssa.BasicBlock, ins ssa.Instruction) {
			if mu, ok := ins.(*ssa.MapUpdate); ok && Path(Param("chain"), "UsedRandoms")(mu.Map) && Param("snapshot")(mu.Key) && Param("nonce")(mu.Value) {
				okk = !blockInCycle(f, b)
			}
		})
		c.Require(okk, "shape", shortName(f)+"|binding", "UsedRandoms[snapshot] = nonce", "binding changed")
	}
}
