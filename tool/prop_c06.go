package main

import (
	"fmt"
	"go/token"
	"go/types"
	"strings"

	"golang.org/x/tools/go/ssa"
)

func init() { register("C06", propC06) }

// fieldsRead: names of fields of struct `structName` loaded (directly or by address) in fn.
func fieldsRead(fn *ssa.Function, structName string, into map[string]bool) {
	eachInstr(fn, func(b *ssa.BasicBlock, ins ssa.Instruction) {
		switch x := ins.(type) {
		case *ssa.FieldAddr:
			if _, tn := structOf(x.X.Type()); tn == structName {
				// count only reads: a FieldAddr that is stored to is a write
				isWrite := false
				if x.Referrers() != nil {
					for _, r := range *x.Referrers() {
						if st, ok := r.(*ssa.Store); ok && st.Addr == ssa.Value(x) {
							isWrite = true
						}
					}
				}
				if !isWrite {
					into[fieldNameOf2(x.X.Type(), x.Field)] = true
				}
			}
		case *ssa.Field:
			if _, tn := structOf(x.X.Type()); tn == structName {
				into[fieldNameOf2(x.X.Type(), x.Field)] = true
			}
		}
	})
}

func propC06(c *Check) {
	c.Explain = "Decides the structure of canonical transaction encoding: (1) unmarshalVersionedTransaction accepts only past the size gate (before decoding) and bytes.Equal(re-encoding, input), where the re-encoder marshalWithCapacity -> EncodeTransaction is the same function Marshal reaches, so 'accepted bytes re-encode to themselves' holds by construction on every path; (2) Decoder.DecodeTransaction is called only from that function (no decode path bypasses the canonical gate); (3) order leak: every map iteration in the encoder call tree only fills a slice that is sorted before anything is emitted (EncodeSignatures sorts by index); (4) field coverage: payloadMarshal builds SignedTransaction{Transaction: ver.Transaction} and nothing else (no signatures in the hash payload); every exported field of Transaction, Input, Output, DepositData, MintData and WithdrawalData is read by EncodeTransaction/EncodeInput/EncodeOutput; PayloadHash is Blake3(PayloadMarshal()); (5) length-prefix discipline: every Write of a variable-length operand in those encoders is immediately preceded by a WriteInt/WriteUint32 of len(<the same operand>), fixed-size operands (array slices, magic/null markers, two-byte tags) are exempt, and optional members are introduced by the magic/null marker; (6) error discipline of the transaction decoders is shared with C07 (every Decoder read error is tested or returned). (6b) each `null` presence marker is written exactly on the true edge of a plain `member == nil` test whose false edge writes `magic` (absent and present-but-empty never share an encoding); (7) every value returned by payloadMarshal is the encoding of the stripped literal (no path returns the signature-carrying encoding)."
	c.NotCov = "collision resistance; value-level decode(encode(x)) == x beyond what the canonical re-encoding gate gives for accepted bytes."
	c.Floor(14)
	w := c.W

	if f := c.F("common.unmarshalVersionedTransaction"); f != nil {
		var accepts []ssa.Instruction
		for _, r := range acceptReturns(f) {
			if !ConstNil(retValue(r.(*ssa.Return), 0)) {
				accepts = append(accepts, r)
			}
		}
		val := Param("val")
		dec := Call("(*common.Decoder).DecodeTransaction", Call("common.NewDecoder", val))
		ver := func(v ssa.Value) bool { a, ok := v.(*ssa.Alloc); return ok && typeShort(a.Type()) == "*common.VersionedTransaction" }
		re := Call("(*common.VersionedTransaction).marshalWithCapacity", ver, Len(val))
		c.MustPass(f, Gate{Name: "len(val) > TransactionMaximumSize => reject", RejectOnTrue: true, Cond: Bin(token.GTR, Len(val), w.ConstNamed("config", "TransactionMaximumSize"))}, append(append([]ssa.Instruction{}, accepts...), valueInstrs(findValues(f, dec))...), "decoding / accepting")
		c.MustPass(f, Gate{Name: "DecodeTransaction err != nil => reject", RejectOnTrue: true, Cond: BinEither(token.NEQ, Extract(1, dec), ConstNil)}, accepts, "accepting")
		c.MustPass(f, Gate{Name: "bytes.Equal(re-encoding, val) true", RejectOnTrue: false, Cond: Call("bytes.Equal", re, val)}, accepts, "accepting (canonical form)")
		// the re-encoded value is the decoded one
		okv := false
		eachInstr(f, func(b *ssa.BasicBlock, ins ssa.Instruction) {
			if st, ok := ins.(*ssa.Store); ok {
				if fa, ok := st.Addr.(*ssa.FieldAddr); ok && ver(fa.X) && fieldNameOf2(fa.X.Type(), fa.Field) == "SignedTransaction" {
					okv = PathFrom(Extract(0, dec), "")(st.Val) || Has(Extract(0, dec))(st.Val)
				}
			}
		})
		c.Require(okv, "provenance", shortName(f)+"|re-encode the decoded value", "the value re-encoded and returned wraps exactly the decoded SignedTransaction", "wrapped value changed")
		for _, a := range accepts {
			c.Require(ver(retValue(a.(*ssa.Return), 0)), "provenance", shortName(f)+"|returns checked value", "the value returned is the one that passed the canonical comparison", "another value is returned")
		}
	}
	c.WhoCalls("(*common.Decoder).DecodeTransaction", []string{"common.unmarshalVersionedTransaction"}, "every transaction decode passes the canonical re-encoding gate")
	c.WhoCalls("common.unmarshalVersionedTransaction", []string{"common.UnmarshalVersionedTransaction", "(*common.VersionedTransaction).Marshal", "(*common.VersionedTransaction).PayloadMarshal"}, "public decoding and the debug self-checks")
	// same encoder on both sides
	if f := c.F("(*common.VersionedTransaction).marshalWithCapacity"); f != nil {
		c.Require(len(findCalls(f, "(*common.Encoder).EncodeTransaction")) == 1, "sibling", shortName(f)+"|EncodeTransaction", "the re-encoder is EncodeTransaction", "encoder changed")
	}
	if f := c.F("(*common.VersionedTransaction).marshal"); f != nil {
		c.Require(len(findCalls(f, "(*common.VersionedTransaction).marshalWithCapacity")) == 1, "sibling", shortName(f)+"|same encoder", "Marshal uses the same encoder as the canonical gate", "encoder changed")
	}
	if f := c.F("(*common.VersionedTransaction).payloadMarshal"); f != nil {
		got := structLiteralFields(f, "*common.SignedTransaction")
		c.Require(sameSet(got, []string{"Transaction"}), "fields", shortName(f)+"|payload literal", "the hash payload is SignedTransaction{Transaction: ver.Transaction} — no AggregatedSignature, no SignaturesMap", "literal fields: "+strings.Join(got, ","))
		okp := false
		eachInstr(f, func(b *ssa.BasicBlock, ins ssa.Instruction) {
			if st, ok := ins.(*ssa.Store); ok {
				if fa, ok := st.Addr.(*ssa.FieldAddr); ok && typeShort(fa.X.Type()) == "*common.SignedTransaction" {
					r, p := accessPath(st.Val)
					okp = Param("ver")(r) && len(p) == 0
				}
			}
		})
		c.Require(okp && len(findCalls(f, "(*common.Encoder).EncodeTransaction")) == 1, "provenance", shortName(f)+"|payload source", "the payload transaction is the receiver's own Transaction, encoded by EncodeTransaction", "payload source changed")
		// every returned payload is that encoding: no path returns the full (signature-carrying) encoding
		nret, badret := 0, ""
		for _, r := range allReturns(f) {
			nret++
			ok := false
			if cl, isCall := retValue(r, 0).(*ssa.Call); isCall && Call("(*common.Encoder).EncodeTransaction")(cl) && len(cl.Call.Args) == 2 {
				if a, isAlloc := cl.Call.Args[1].(*ssa.Alloc); isAlloc && typeShort(a.Type()) == "*common.SignedTransaction" {
					ok = true
				}
			}
			if !ok {
				badret = instrPos(c.W, r)
			}
		}
		c.Require(nret > 0 && badret == "", "shape", shortName(f)+"|every return is the stripped encoding", "every value returned by payloadMarshal is EncodeTransaction(&SignedTransaction{Transaction: ver.Transaction})", "a return at "+badret+" yields another encoding (authorization data can reach the hashed payload)")
	}
	if f := c.F("(*common.VersionedTransaction).PayloadHash"); f != nil {
		c.Require(len(findValues(f, Call("crypto.Blake3Hash", Call("(*common.VersionedTransaction).PayloadMarshal", Param("ver"))))) == 1, "shape", shortName(f), "PayloadHash = Blake3(PayloadMarshal())", "hash source changed")
	}

	// encoder call tree
	encs := map[string]*ssa.Function{}
	var walk func(fn *ssa.Function)
	walk = func(fn *ssa.Function) {
		if fn == nil || encs[shortName(fn)] != nil || !inModule(fn) || len(fn.Blocks) == 0 {
			return
		}
		encs[shortName(fn)] = fn
		eachInstr(fn, func(b *ssa.BasicBlock, ins ssa.Instruction) {
			if ci, ok := ins.(ssa.CallInstruction); ok {
				if cal := ci.Common().StaticCallee(); cal != nil && strings.HasPrefix(shortName(cal), "(*common.Encoder).") {
					walk(cal)
				}
			}
		})
	}
	walk(c.F("(*common.Encoder).EncodeTransaction"))
	// (3) order leak
	nMap := 0
	var leaks []string
	for n, fn := range encs {
		has := false
		eachInstr(fn, func(b *ssa.BasicBlock, ins ssa.Instruction) {
			if r, ok := ins.(*ssa.Range); ok && strings.HasPrefix(r.X.Type().Underlying().String(), "map[") {
				has = true
			}
		})
		if has {
			nMap++
			if !sortedMapRange(fn) {
				leaks = append(leaks, n)
			}
		}
		c.Funcs[n] = true
	}
	c.Require(nMap >= 1 && len(leaks) == 0, "order-leak", "common.Encoder|map ranges", "every map iteration in the transaction encoder tree only fills a slice sorted before emission", "order can leak in: "+strings.Join(leaks, ", "))
	// (4) field coverage
	cover := map[string][]string{}
	for _, st := range []string{"common.Transaction", "common.Input", "common.Output", "common.DepositData", "common.MintData", "common.WithdrawalData", "common.SignedTransaction", "common.AggregatedSignature"} {
		read := map[string]bool{}
		for _, fn := range encs {
			fieldsRead(fn, st, read)
		}
		var missing []string
		name := strings.TrimPrefix(st, "common.")
		if o := w.Obj("common", name); o != nil {
			if s, _ := structOf(o.Type()); s != nil {
				for i := 0; i < s.NumFields(); i++ {
					f := s.Field(i)
					if !f.Exported() {
						continue // unexported caches (validatedSize) are not part of the value
					}
					if !read[f.Name()] {
						missing = append(missing, f.Name())
					}
				}
			}
		}
		cover[st] = missing
		c.Require(len(missing) == 0, "fields", st+"|encoded", "every exported field of "+st+" is read by the transaction encoders", "not encoded: "+strings.Join(missing, ","))
	}
	// (5) length-prefix discipline
	nVar := 0
	var bad []string
	for n, fn := range encs {
		for _, b := range fn.Blocks {
			prev := lastEncoderCallBefore(b)
			for _, ins := range b.Instrs {
				cl, ok := ins.(*ssa.Call)
				if !ok || !strings.HasPrefix(calleeName(&cl.Call), "(*common.Encoder).") {
					continue
				}
				if calleeName(&cl.Call) == "(*common.Encoder).Write" {
					arg := cl.Call.Args[1]
					if fixedSize(arg) {
						prev = cl
						continue
					}
					nVar++
					base := stripConv(arg)
					okp := false
					if prev != nil {
						pn := calleeName(&prev.Call)
						if pn == "(*common.Encoder).WriteInt" || pn == "(*common.Encoder).WriteUint32" {
							la := stripConv(prev.Call.Args[1])
							if lc, isLen := la.(*ssa.Call); isLen && calleeName(&lc.Call) == "builtin:len" && sameAccess(stripConv(lc.Call.Args[0]), base) {
								okp = true
							}
						}
					}
					if !okp {
						bad = append(bad, n+" at "+instrPos(w, ins))
					}
				}
				prev = cl
			}
		}
	}
	c.Sites += nVar
	c.Require(nVar >= 8 && len(bad) == 0, "length-prefix", "common.Encoder|variable-length writes", "every variable-length Write is immediately preceded by a write of len(<same operand>)", "unprefixed variable-length writes: "+strings.Join(bad, "; "))
	// optional members use the marker
	if f := c.F("(*common.Encoder).EncodeInput"); f != nil {
		nm := 0
		for _, ci := range findCalls(f, "(*common.Encoder).Write") {
			if Global("magic")(ci.Common().Args[1]) || Global("null")(ci.Common().Args[1]) {
				nm++
			}
		}
		c.Require(nm == 4, "shape", shortName(f)+"|optional markers", "deposit and mint members are each introduced by the magic / null marker", "marker writes: "+itoa(nm))
	}
	// the presence marker is decided by the pointer's nil-ness alone: `null` is written exactly on the
	// true edge of `member == nil` and `magic` on its false edge. Any other condition makes two
	// different values (absent / present-but-empty) share one encoding, hence one hash.
	for _, fnName := range []string{"(*common.Encoder).EncodeInput", "(*common.Encoder).EncodeOutput"} {
		f := c.F(fnName)
		if f == nil {
			continue
		}
		n, bad := 0, ""
		for _, ci := range findCalls(f, "(*common.Encoder).Write") {
			if !Global("null")(ci.Common().Args[1]) {
				continue
			}
			n++
			b := ci.(ssa.Instruction).Block()
			ok := len(b.Preds) == 1
			if ok {
				iff, isIf := b.Preds[0].Instrs[len(b.Preds[0].Instrs)-1].(*ssa.If)
				ok = isIf && b.Preds[0].Succs[0] == b
				if ok {
					bo, isBo := iff.Cond.(*ssa.BinOp)
					ok = isBo && bo.Op == token.EQL && (ConstNil(bo.Y) || ConstNil(bo.X))
					if ok {
						_, isPtr := bo.X.Type().Underlying().(*types.Pointer)
						ok = isPtr
					}
				}
				if ok {
					hasMagic := false
					for _, ins := range b.Preds[0].Succs[1].Instrs {
						if cl, isCall := ins.(*ssa.Call); isCall && Call("(*common.Encoder).Write", nil, Global("magic"))(cl) {
							hasMagic = true
						}
					}
					ok = hasMagic
				}
			}
			if !ok {
				bad = instrPos(w, ci)
			}
		}
		c.Sites += n
		c.Require(n >= 1 && bad == "", "shape", shortName(f)+"|presence marker iff member != nil", "every `null` marker is written exactly on the true edge of a plain `member == nil` test whose false edge writes `magic`", fmt.Sprintf("markers: %d; offending marker at %q", n, bad), c.W.Pos(f.Pos()))
	}
	// transaction decoders' error discipline (shared rule)
	for _, n := range []string{"(*common.Decoder).DecodeTransaction", "(*common.Decoder).ReadInput", "(*common.Decoder).ReadOutput", "(*common.Decoder).ReadSignatures", "(*common.Decoder).ReadAggregatedSignature"} {
		if f := c.F(n); f != nil {
			c.ErrorsPropagated(f, decoderCalls, "a failed or short read must reject")
		}
	}
	if f := c.F("(*common.Decoder).DecodeTransaction"); f != nil {
		var accepts []ssa.Instruction
		for _, r := range acceptReturns(f) {
			if !ConstNil(retValue(r.(*ssa.Return), 0)) {
				accepts = append(accepts, r)
			}
		}
		c.MustPass(f, Gate{Name: "trailing probe err != io.EOF => reject", RejectOnTrue: true, Cond: BinEither(token.NEQ, Extract(1, Call("(*bytes.Reader).ReadByte")), Global("EOF"))}, accepts, "accepting")
	}
}

func stripConv(v ssa.Value) ssa.Value {
	for {
		switch x := v.(type) {
		case *ssa.Convert:
			v = x.X
			continue
		case *ssa.ChangeType:
			v = x.X
			continue
		}
		return v
	}
}

// fixedSize: the operand has a length fixed by its type or definition: a slice of an
// array pointer, a package-level marker (magic/null), or a literal byte array.
func fixedSize(v ssa.Value) bool {
	v = stripConv(v)
	switch x := v.(type) {
	case *ssa.Slice:
		if p, ok := x.X.Type().Underlying().(*types.Pointer); ok {
			if _, isArr := p.Elem().Underlying().(*types.Array); isArr {
				return x.Low == nil && x.High == nil
			}
		}
		return false
	case *ssa.UnOp:
		if g, ok := x.X.(*ssa.Global); ok {
			return g.Name() == "magic" || g.Name() == "null"
		}
	case *ssa.Global:
		return true
	}
	return false
}

// sameAccess: both values read the same access path from the same root.
func sameAccess(a, b ssa.Value) bool {
	if a == b {
		return true
	}
	ra, pa := accessPath(a)
	rb, pb := accessPath(b)
	return ra == rb && strings.Join(pa, ".") == strings.Join(pb, ".")
}

// lastEncoderCallBefore: the last Encoder call executed before block b on every path,
// following single-predecessor chains (an intervening bounds `if ... panic` is fine).
func lastEncoderCallBefore(b *ssa.BasicBlock) *ssa.Call {
	for steps := 0; steps < 4; steps++ {
		if len(b.Preds) != 1 {
			return nil
		}
		p := b.Preds[0]
		for i := len(p.Instrs) - 1; i >= 0; i-- {
			if cl, ok := p.Instrs[i].(*ssa.Call); ok && strings.HasPrefix(calleeName(&cl.Call), "(*common.Encoder).") {
				return cl
			}
		}
		b = p
	}
	return nil
}
