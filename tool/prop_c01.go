package main

import (
	"fmt"
	"go/token"

	"golang.org/x/tools/go/ssa"
)

func init() { register("C01", propC01) }

// C01 — accepted transactions conserve value within one asset.
func propC01(c *Check) {
	c.Explain = "Decides the control-flow and dataflow shape of value conservation: (1) validateOutputs sums every output amount exactly once per iteration (accumulator phi shape), rejects non-positive output amounts per iteration, and every accepting return passes the inputAmount.Cmp(outputAmount)!=0 reject gate; (2) validateInputs adds the *stored* UTXO amount (result of store.ReadUTXOLock) exactly once per ordinary input, gates each iteration on utxo!=nil, utxo.Asset==tx.Asset and the duplicate hash:index filter, and its only early accepts are the mint/deposit returns; (3) Validate places inputAmount.Sign()<=0 reject between validateInputs and validateOutputs and passes validateInputs' amount result to validateOutputs; (4) validateMint/validateDeposit gate len(Inputs)==1; (5) Integer.Add/Sub keep their sign/underflow panics. (6) TransactionType scans every input: an iteration completes only when the input carries no mint/deposit/genesis record, the record-present edge reaches only returns of the matching type constant, and no return precedes the scan (so the single-input gates of validateMint/validateDeposit cover every transaction for which validateInputs takes an early amount-from-input return)."
	c.NotCov = "big.Int arithmetic itself; positivity of amounts already stored in the ledger (history); 'exactly one asset' is decided as 'every summed input carries tx.Asset'."
	c.Floor(20)
	intSign := func(x VM) VM { return Call("(common.Integer).Sign", x) }

	// ---- validateOutputs
	vo := c.F("(*common.Transaction).validateOutputs")
	if vo != nil {
		outs := Path(Param("tx"), "Outputs")
		lp := c.RangeLoop(vo, "outputs", outs)
		oAmount := Path(Param("tx"), "Outputs.[].Amount")
		c.Accumulator(vo, lp, "outputAmount", func(self VM) VM {
			return Call("(common.Integer).Add", self, oAmount)
		}, "outputAmount = outputAmount.Add(o.Amount)")
		c.LoopGate(vo, lp, Gate{Name: "o.Amount.Sign() <= 0 => reject", RejectOnTrue: true,
			Cond: Bin(token.LEQ, intSign(oAmount), ConstInt(0))}, "every output amount is positive")
		c.MustPass(vo, Gate{Name: "inputAmount.Cmp(outputAmount) != 0 => reject", RejectOnTrue: true,
			Cond: Bin(token.NEQ, Call("(common.Integer).Cmp", Param("inputAmount"), PhiNamed("outputAmount")), ConstInt(0))},
			acceptReturns(vo), "any accepting return of validateOutputs")
	}

	// ---- validateInputs
	vi := c.F("(*common.SignedTransaction).validateInputs")
	if vi != nil {
		lp := c.RangeLoop(vi, "inputs", Path(Param("tx"), "Inputs"))
		read := Call("iface:common.UTXOLockReader.ReadUTXOLock", Param("store"), Path(Param("tx"), "Inputs.[].Hash"), Path(Param("tx"), "Inputs.[].Index"))
		utxo := Extract(0, read)
		if lp != nil {
			lp.exempt = func(r *ssa.Return) bool {
				// the two early returns for mint / deposit inputs (amount taken from the input itself)
				v := r.Results[1]
				return Path(Param("tx"), "Inputs.[].Mint.Amount")(v) || Path(Param("tx"), "Inputs.[].Deposit.Amount")(v)
			}
		}
		c.Accumulator(vi, lp, "inputAmount", func(self VM) VM {
			return Call("(common.Integer).Add", self, Path(utxo, "Amount"))
		}, "inputAmount = inputAmount.Add(<amount of the UTXO returned by store.ReadUTXOLock(in.Hash, in.Index)>)")
		c.LoopGate(vi, lp, Gate{Name: "utxo == nil => reject", RejectOnTrue: true,
			Cond: BinEither(token.EQL, utxo, ConstNil)}, "every ordinary input is an existing output")
		c.LoopGate(vi, lp, Gate{Name: "utxo.Asset != tx.Asset => reject", RejectOnTrue: true,
			Cond: BinEither(token.NEQ, Path(utxo, "Asset"), Path(Param("tx"), "Asset"))}, "every summed input carries the transaction's asset")
		c.LoopGate(vi, lp, Gate{Name: "inputsFilter[hash:index] != nil => reject", RejectOnTrue: true,
			Cond: BinEither(token.NEQ, lookupOf(AnyV), ConstNil)}, "no input is counted twice")
		// the filter is filled with the key on every completed iteration
		c.LoopEffect(vi, lp, func(ins ssa.Instruction) bool {
			mu, ok := ins.(*ssa.MapUpdate)
			return ok && isMakeMapNamed(mu.Map)
		}, "inputsFilter[fk] = utxo", "the duplicate filter records every accepted input")
		// exempt early accepts: exactly the mint and deposit returns
		n := 0
		for _, r := range acceptReturns(vi) {
			if lp != nil && lp.exempt(r.(*ssa.Return)) {
				n++
			}
		}
		c.Require(n == 2, "exempt", shortName(vi)+"|mint/deposit early accepts", "exactly two early accepting returns (mint input, deposit input) carry an amount taken from the input itself", "found "+itoa(n))
	}

	// ---- Validate
	va := c.F("(*common.VersionedTransaction).Validate")
	if va != nil {
		viCall := Call("(*common.SignedTransaction).validateInputs")
		amt := Extract(1, viCall)
		voCalls := findCalls(va, "(*common.Transaction).validateOutputs")
		c.MustPass(va, Gate{Name: "inputAmount.Sign() <= 0 => reject", RejectOnTrue: true,
			Cond: Bin(token.LEQ, intSign(amt), ConstInt(0))}, callInstrs(voCalls), "the validateOutputs call")
		ok := len(voCalls) == 1
		if ok {
			args := voCalls[0].Common().Args
			ok = len(args) >= 4 && amt(args[3])
		}
		c.Require(ok, "provenance", shortName(va)+"|validateOutputs.inputAmount", "the inputAmount passed to validateOutputs is the amount result of validateInputs", "argument does not derive from validateInputs' second result")
		c.MustPass(va, Gate{Name: "validateInputs err != nil => reject", RejectOnTrue: true,
			Cond: BinEither(token.NEQ, Extract(2, viCall), ConstNil)}, acceptReturns(va), "any accepting return of Validate")
		c.MustPass(va, Gate{Name: "validateOutputs err != nil => reject", RejectOnTrue: true,
			Cond: BinEither(token.NEQ, Call("(*common.Transaction).validateOutputs"), ConstNil)}, acceptReturns(va), "any accepting return of Validate")
	}

	// ---- mint / deposit: single input
	for _, n := range []string{"(*common.VersionedTransaction).validateMint", "(*common.SignedTransaction).validateDeposit"} {
		f := c.F(n)
		if f == nil {
			continue
		}
		c.MustPass(f, Gate{Name: "len(tx.Inputs) != 1 => reject", RejectOnTrue: true,
			Cond: Bin(token.NEQ, Len(Has(Path(Param("tx"), "Inputs"))), ConstInt(1))}, acceptReturns(f), "any accepting return")
	}
	if f := c.F("(*common.Transaction).verifyDepositData"); f != nil {
		c.MustPass(f, Gate{Name: "deposit.Amount.Sign() <= 0 => reject", RejectOnTrue: true,
			Cond: Bin(token.LEQ, intSign(Path(Param("tx"), "Inputs.[].Deposit.Amount")), ConstInt(0))}, acceptReturns(f), "any accepting return")
	}

	// ---- classification: a mint / deposit / genesis record in ANY input position decides the
	// transaction type (so the single-input gates of validateMint / validateDeposit apply to every
	// transaction for which validateInputs takes the early "amount from the input itself" return)
	if tt := c.F("(*common.SignedTransaction).TransactionType"); tt != nil {
		lp := c.RangeLoop(tt, "inputs", Path(Param("tx"), "Inputs"))
		if lp != nil {
			kinds := []struct{ field, konst string }{{"Mint", "TransactionTypeMint"}, {"Deposit", "TransactionTypeDeposit"}, {"Genesis", "TransactionTypeUnknown"}}
			lp.exempt = func(r *ssa.Return) bool {
				for _, k := range kinds {
					if len(r.Results) == 1 && c.W.ConstNamed("common", k.konst)(r.Results[0]) {
						return true
					}
				}
				return false
			}
			hcut := map[Edge]bool{}
			for _, p := range lp.Header.Preds {
				hcut[Edge{p.Index, lp.Header.Index}] = true
			}
			for _, k := range kinds {
				cv := c.W.ConstNamed("common", k.konst)
				cond := BinEither(token.NEQ, Path(Param("tx"), "Inputs.[]."+k.field), ConstNil)
				c.LoopGate(tt, lp, Gate{Name: "in." + k.field + " != nil => typed return", RejectOnTrue: true, Cond: cond},
					"every input is inspected; an iteration completes only when the record is absent")
				// the record-present edge reaches only returns of the matching type constant
				n, bad := 0, ""
				for _, iff := range findIfs(tt, cond) {
					for bi := range reachable(tt, iff.Block().Succs[0], hcut) {
						for _, ins := range tt.Blocks[bi].Instrs {
							if r, ok := ins.(*ssa.Return); ok {
								if len(r.Results) == 1 && cv(r.Results[0]) {
									n++
								} else {
									bad = instrPos(c.W, r)
								}
							}
						}
					}
				}
				c.Require(n > 0 && bad == "", "classify", shortName(tt)+"|in."+k.field+" != nil => "+k.konst, "an input carrying a "+k.field+" record makes the transaction type "+k.konst, fmt.Sprintf("matching returns=%d, other return reachable at %q", n, bad), c.W.Pos(tt.Pos()))
			}
			// no return is reachable without running the input scan
			cut := map[Edge]bool{}
			for _, p := range lp.Header.Preds {
				cut[Edge{p.Index, lp.Header.Index}] = true
			}
			seen := reachable(tt, tt.Blocks[0], cut)
			early := ""
			for bi := range seen {
				for _, ins := range tt.Blocks[bi].Instrs {
					if r, ok := ins.(*ssa.Return); ok {
						early = instrPos(c.W, r)
					}
				}
			}
			c.Require(early == "", "gate", shortName(tt)+"|input scan precedes every return", "every return of TransactionType is reached through the scan over all inputs", "a return at "+early+" is reachable without entering the input loop", c.W.Pos(tt.Pos()))
		}
	}

	// ---- Integer.Add / Sub keep their guards (explicit panic gates)
	for _, n := range []string{"(common.Integer).Add", "(common.Integer).Sub"} {
		f := c.F(n)
		if f == nil {
			continue
		}
		rets := acceptReturns(f)
		c.MustPass(f, Gate{Name: "x.Sign() < 0 => panic", RejectOnTrue: true,
			Cond: Bin(token.LSS, intSign(Has(Param("x"))), ConstInt(0))}, rets, "the result")
		c.MustPass(f, Gate{Name: "y.Sign() <= 0 => panic", RejectOnTrue: true,
			Cond: Bin(token.LEQ, intSign(Has(Param("y"))), ConstInt(0))}, rets, "the result")
	}
	if f := c.F("(common.Integer).Sub"); f != nil {
		c.MustPass(f, Gate{Name: "x.Cmp(y) < 0 => panic", RejectOnTrue: true,
			Cond: Bin(token.LSS, Call("(common.Integer).Cmp", Has(Param("x")), Has(Param("y"))), ConstInt(0))}, acceptReturns(f), "the result")
	}
	if f := c.F("(common.Integer).Add"); f != nil {
		c.MustPass(f, Gate{Name: "v.Cmp(x) < 0 => panic (overflow guard)", RejectOnTrue: true,
			Cond: Bin(token.LSS, Call("(common.Integer).Cmp", nil, Has(Param("x"))), ConstInt(0))}, acceptReturns(f), "the result")
	}
}
