package main

import (
	"fmt"
	"go/token"
	"strings"

	"golang.org/x/tools/go/ssa"
)

func init() { register("C21", propC21) }

func propC21(c *Check) {
	c.Explain = "Decides the crash-atomicity structure of the consensus marker: the property needs either (a) the CONSENSUSSNAPSHOT record to be written in the same Badger transaction that finalises the snapshot (co-location in WriteSnapshot's effect set), or (b) a start-up repair that replays every consensus-class snapshot after the last marker (reloadConsensusState called inside a loop fed by a topology scan). Also decided: (c) SetupNode still repairs from LastSnapshot() when it holds a single transaction; (d) on every live finalisation path, AddSnapshot / finalizeNodeAcceptSnapshot of a single-transaction snapshot is followed on all non-panicking paths by reloadConsensusState (the only skip is the multi-transaction, i.e. batchable, case); (e) WriteConsensusSnapshot is a single write transaction and the marker family has one writer; (f) inside reloadConsensusState, once the transaction type is recognised as one of the seven consensus classes (mint, pledge, cancel, accept, remove, custodian update, custodian slash) no return is reachable without the marker write. TODAY'S TREE: neither (a) nor (b) holds — the marker is committed by a separate transaction after WriteSnapshot, the store mutex is released in between, and SetupNode repairs only the very last snapshot — reported as a KNOWN FINDING."
	c.NotCov = "crash points themselves (no execution); Badger durability. Clauses (c)-(e) are necessary conditions only."
	c.Floor(7)
	w := c.W
	e := w.Effects()
	ws := c.F("(*storage.BadgerStore).WriteSnapshot")
	coloc := false
	if ws != nil {
		coloc = effectSet(e.Transitive(ws, false), "set")["set:graphPrefixConsensusSnapshot"]
	}
	// (b) replay loop at start-up
	replay := false
	if f := c.F("kernel.SetupNode"); f != nil {
		for _, ci := range findCalls(f, "(*kernel.Node).reloadConsensusState") {
			if blockInCycle(f, ci.Block()) {
				replay = true
			}
		}
		for _, g := range w.ModuleFuncs() {
			// a helper called from SetupNode that loops over ReadSnapshotsSinceTopology and reloads
			if len(findCalls(g, "(*kernel.Node).reloadConsensusState")) > 0 && (len(findCalls(g, "iface:storage.Store.ReadSnapshotsSinceTopology")) > 0 || len(findCalls(g, "iface:storage.Store.ReadSnapshotWithTransactionsSinceTopology")) > 0) {
				for _, ci := range findCalls(g, "(*kernel.Node).reloadConsensusState") {
					if blockInCycle(g, ci.Block()) && len(findCalls(f, shortName(g))) > 0 {
						replay = true
					}
				}
			}
		}
	}
	c.Sites += len(w.ModuleFuncs())
	c.Require(coloc || replay, "crashatomic", "consensus-marker|colocated-or-replayed", "the consensus marker is written in the snapshot's own transaction, or start-up replays every consensus snapshot since the last marker", "the marker is written by a separate transaction (WriteConsensusSnapshot) after WriteSnapshot committed, and SetupNode repairs only LastSnapshot(): a crash between the two commits with another snapshot written in between leaves the marker stale")

	// (c) repair exists
	if f := c.F("kernel.SetupNode"); f != nil {
		ls := Call("iface:storage.Store.LastSnapshot")
		rl := findCalls(f, "(*kernel.Node).reloadConsensusState")
		ok := len(rl) == 1
		if ok {
			a := rl[0].Common().Args
			ok = PathFrom(Extract(0, ls), "")(a[1]) && PathFrom(Extract(1, ls), "[]")(a[2]) &&
				dominatedByBranch(f, rl[0].Block(), Bin(token.EQL, Len(Extract(1, ls)), ConstInt(1)), true)
		}
		c.Require(ok, "shape", shortName(f)+"|repair from last snapshot", "start-up calls reloadConsensusState(last snapshot, its transaction) when the last snapshot holds exactly one transaction", "repair call changed or removed")
		var accepts []ssa.Instruction
		for _, r := range acceptReturns(f) {
			if !ConstNil(retValue(r.(*ssa.Return), 0)) {
				accepts = append(accepts, r)
			}
		}
		c.MustPassAny(f, nil, "no single-transaction last snapshot | reloadConsensusState == nil", []Gate{
			{Name: "len(txs) == 1 false", RejectOnTrue: true, Cond: Bin(token.EQL, Len(Extract(1, ls)), ConstInt(1))},
			{Name: "reloadConsensusState err != nil => fail start-up", RejectOnTrue: true, Cond: BinEither(token.NEQ, Call("(*kernel.Node).reloadConsensusState"), ConstNil)},
		}, accepts, "returning a node")
	}
	// (d) post-gates on live finalisation
	for _, n := range []string{"(*kernel.Chain).cosiHandleResponse", "(*kernel.Chain).cosiHandleFinalization"} {
		f := c.F(n)
		if f == nil {
			continue
		}
		reload := callBlocks(f, Call("(*kernel.Node).reloadConsensusState"))
		cut := outEdges(f, reload)
		var starts []ssa.Instruction
		starts = append(starts, callInstrs(findCalls(f, "(*kernel.Chain).AddSnapshot"))...)
		starts = append(starts, callInstrs(findCalls(f, "(*kernel.Node).finalizeNodeAcceptSnapshot"))...)
		ok := len(starts) == 2 && len(reload) >= 1
		var bad []string
		// allowed skip: the multi-transaction (batchable) case, i.e. the true edge of len(found) != 1 / > 1
		for _, m := range []VM{Bin(token.NEQ, Len(AnyV), ConstInt(1)), Bin(token.GTR, Len(AnyV), ConstInt(1))} {
			for _, i := range findIfs(f, m) {
				cut[Edge{i.Block().Index, i.Block().Succs[0].Index}] = true
			}
		}
		for _, st := range starts {
			seen := reachable(f, st.Block(), cut)
			for bi := range seen {
				b := f.Blocks[bi]
				r, isRet := b.Instrs[len(b.Instrs)-1].(*ssa.Return)
				if !isRet || b == f.Recover || reload[bi] || isRejectReturn(f, r) {
					continue
				}
				bad = append(bad, instrPos(w, r))
			}
		}
		c.Require(ok && len(bad) == 0, "postgate", n+"|finalised => marker refreshed", "after AddSnapshot / finalizeNodeAcceptSnapshot every non-failing exit passes reloadConsensusState unless the snapshot holds more than one transaction", "exits without reload: "+strings.Join(bad, ", "))
	}
	// (f) reloadConsensusState refreshes the marker for every consensus-class transaction type:
	// from the branch that recognises the type, no return is reachable without the marker write
	// (start-up repair and live finalisation both rely on it; a silent skip leaves the marker stale)
	if f := c.F("(*kernel.Node).reloadConsensusState"); f != nil {
		wr := callBlocks(f, Call("(*kernel.Node).WriteConsensusSnapshotWithHack"))
		cut := outEdges(f, wr)
		tt := Call("(*common.SignedTransaction).TransactionType")
		for _, k := range []string{"TransactionTypeMint", "TransactionTypeNodePledge", "TransactionTypeNodeCancel", "TransactionTypeNodeAccept", "TransactionTypeNodeRemove", "TransactionTypeCustodianUpdateNodes", "TransactionTypeCustodianSlashNodes"} {
			n, bad := 0, ""
			for _, iff := range findIfs(f, BinEither(token.EQL, tt, w.ConstNamed("common", k))) {
				after := false
				for bi := range wr {
					if f.Blocks[bi].Dominates(iff.Block()) {
						after = true // the later dispatch on the same type, past the write
					}
				}
				if after {
					continue
				}
				n++
				for bi := range reachable(f, iff.Block().Succs[0], cut) {
					b := f.Blocks[bi]
					if r, isRet := b.Instrs[len(b.Instrs)-1].(*ssa.Return); isRet && !wr[bi] && b != f.Recover {
						bad = instrPos(w, r)
					}
				}
			}
			c.Sites++
			c.Require(n >= 1 && bad == "", "postgate", shortName(f)+"|"+k+" => marker written", "once the transaction type is recognised as "+k+", every return passes WriteConsensusSnapshotWithHack", fmt.Sprintf("type tests found: %d; return without the marker write at %q", n, bad), c.W.Pos(f.Pos()))
		}
	}
	// (e) marker writer
	c.WhoWrites(e, "graphPrefixConsensusSnapshot", []string{"set", "delete"}, []string{"storage.writeConsensusSnapshot"}, "single writer of the marker")
	if f := c.F("(*storage.BadgerStore).WriteConsensusSnapshot"); f != nil {
		c.SingleWriteTxn(e, f, "snapshotsDB")
	}
	c.WhoCalls("iface:storage.Store.WriteConsensusSnapshot", []string{"(*kernel.Node).WriteConsensusSnapshotWithHack"}, "the marker is written only through the class-checked wrapper")
	c.WhoCalls("(*kernel.Node).WriteConsensusSnapshotWithHack", []string{"(*kernel.Node).reloadConsensusState"}, "the marker is refreshed only by reloadConsensusState")
}
