package main

import (
	"go/token"
	"strings"

	"golang.org/x/tools/go/ssa"
)

func init() { register("C23", propC23) }

func propC23(c *Check) {
	c.Explain = "Decides the key-family structure of the proposal queue: (1) cacheStoreTransaction writes the PAYLOAD family only; cacheQueueTransaction writes ORDER, PAYLOAD and QUEUE in one cacheDB write transaction; the QUEUE family is set nowhere else; (2) CacheRetrieveTransactions works in one cacheDB.Update, iterates the QUEUE prefix only, deletes exactly QUEUE and ORDER keys (the visited queue key and the order key of its hash) and never writes or deletes PAYLOAD; its scan continues only while len(txs) < limit; a per-hash filter test precedes the append and the filter is filled; only bodies read through cacheReadTransaction are appended; (3) CacheRemoveTransactions deletes PAYLOAD and ORDER; (4) kernel: CacheStoreTransactions (payload-only peer path) reaches CacheStoreTransaction but never CacheQueueTransaction; CacheQueueTransactions reaches CacheQueueTransaction; retrieval is called only by the cache-queue loop; (5) every success return of Node.QueueTransaction passes CacheQueueTransaction unless the transaction is already finalized; (6) openDB never turns Badger conflict detection off. (7) a body that cacheReadTransaction returned is appended before the iteration completes; the dequeue loop of popAndProcessCacheQueue and the two peer delivery loops visit every element; a transaction not cached before is queued only after tx.Validate returned nil."
	c.NotCov = "interleavings on the optimistic cache DB (ErrConflict retries), TTL expiry of records, and the run-time order of queue keys."
	c.Floor(14)
	w := c.W
	e := w.Effects()

	if f := c.F("(*storage.BadgerStore).cacheStoreTransaction"); f != nil {
		c.SingleWriteTxn(e, f, "cacheDB")
		c.EffectsWithin(e, f, []string{"set:cachePrefixTransactionCache"}, []string{"set:cachePrefixTransactionCache"}, "storing a body must not schedule it")
	}
	if f := c.F("(*storage.BadgerStore).cacheQueueTransaction"); f != nil {
		c.SingleWriteTxn(e, f, "cacheDB")
		all := []string{"set:cachePrefixTransactionCache", "set:cachePrefixTransactionOrder", "set:cachePrefixTransactionQueue"}
		c.EffectsWithin(e, f, all, all, "queueing records order marker, body and queue entry atomically")
		c.ErrorsPropagated(f, txnWriteCalls, "a failed record aborts the queueing")
	}
	c.WhoWrites(e, "cachePrefixTransactionQueue", []string{"set"}, []string{"(*storage.BadgerStore).cacheQueueTransaction"}, "only queueing makes a transaction eligible")
	c.WhoWrites(e, "cachePrefixTransactionQueue", []string{"delete"}, []string{"(*storage.BadgerStore).CacheRetrieveTransactions$1"}, "only retrieval consumes queue entries")
	c.WhoWrites(e, "cachePrefixTransactionCache", []string{"delete"}, []string{"(*storage.BadgerStore).CacheRemoveTransactions$1"}, "bodies are deleted only by removal")

	if f := c.F("(*storage.BadgerStore).CacheRetrieveTransactions"); f != nil {
		c.SingleWriteTxn(e, f, "cacheDB")
		del := []string{"delete:cachePrefixTransactionOrder", "delete:cachePrefixTransactionQueue"}
		c.EffectsWithin(e, f, del, del, "retrieval consumes the queue entry and order marker and keeps the body")
	}
	if f := c.F("(*storage.BadgerStore).CacheRetrieveTransactions$1"); f != nil {
		// iterator prefix
		pre := false
		eachInstr(f, func(b *ssa.BasicBlock, ins ssa.Instruction) {
			if st, ok := ins.(*ssa.Store); ok {
				if fa, ok := st.Addr.(*ssa.FieldAddr); ok && fieldNameOf(fa.X.Type(), fa.Field) == "Prefix" && Has(ConstStr("CACHETRANSACTIONQUEUE"))(st.Val) {
					pre = true
				}
			}
		})
		c.Require(pre, "shape", shortName(f)+"|prefix", "the scan is confined to the QUEUE prefix", "prefix changed")
		lp := c.ForOrRangeLoopWithCall(f, "scan", "(*github.com/dgraph-io/badger/v4.Iterator).Next")
		okb := false
		if lp != nil {
			for bi := range lp.Blocks {
				b := f.Blocks[bi]
				if iff, ok := b.Instrs[len(b.Instrs)-1].(*ssa.If); ok {
					if Bin(token.LSS, Len(Path(Param("txs"), "")), Param("limit"))(iff.Cond) && !lp.Blocks[b.Succs[1].Index] {
						okb = true
					}
				}
			}
		}
		c.Require(okb, "bound", shortName(f)+"|len(txs) < limit", "the scan leaves the loop as soon as len(txs) < limit fails", "bound test missing or not an exit")
		// appends to txs
		var appends []ssa.Instruction
		eachInstr(f, func(b *ssa.BasicBlock, ins ssa.Instruction) {
			if st, ok := ins.(*ssa.Store); ok && Param("txs")(st.Addr) {
				appends = append(appends, st)
				v := st.Val
				okv := Call("builtin:append", Path(Param("txs"), ""), Has(Extract(0, Call("(*storage.BadgerStore).cacheReadTransaction", nil, Param("txn")))))(v)
				c.Require(okv, "provenance", shortName(f)+"|appended value", "only bodies read through cacheReadTransaction(txn, hash) are returned", "another value is appended", instrPos(w, ins))
			}
		})
		filter := func(v ssa.Value) bool {
			m, ok := v.(*ssa.MakeMap)
			return ok && typeShort(m.Type()) == "map[crypto.Hash]bool"
		}
		c.MustPass(f, Gate{Name: "filter[hash] => skip", RejectOnTrue: true, Cond: lookupOf(filter)}, appends, "appending a transaction (each hash at most once per retrieval)")
		c.LoopEffectBefore(f, lp, appends, func(ins ssa.Instruction) bool {
			mu, ok := ins.(*ssa.MapUpdate)
			return ok && filter(mu.Map) && ConstBool(true)(mu.Value)
		}, "filter[hash] = true", "the filter records every hash before it can be appended")
		// a body that exists is handed out: once cacheReadTransaction returned a non-nil body the
		// iteration cannot complete without the append (its queue records are deleted either way)
		read := Extract(0, Call("(*storage.BadgerStore).cacheReadTransaction", nil, Param("txn")))
		c.EdgeEffect(f, lp, BinEither(token.NEQ, read, ConstNil), true, func(ins ssa.Instruction) bool {
			st, ok := ins.(*ssa.Store)
			return ok && Param("txs")(st.Addr) && Call("builtin:append", Path(Param("txs"), ""), Has(read))(st.Val)
		}, "txs = append(txs, ver)", "a queued transaction whose body exists is returned, not silently dropped with its queue records")
		// processed keys: the visited key and the order key
		c.ErrorsPropagated(f, func(callee string, ci ssa.CallInstruction) bool {
			return txnWriteCalls(callee, ci) || callee == "(*storage.BadgerStore).cacheReadTransaction"
		}, "a failed delete or a failed body read aborts the retrieval update (nothing is dequeued)")
	}
	if f := c.F("(*storage.BadgerStore).CacheRemoveTransactions$1"); f != nil {
		all := []string{"delete:cachePrefixTransactionCache", "delete:cachePrefixTransactionOrder"}
		c.EffectsWithin(e, f, all, all, "removal deletes body and order marker")
	}

	// kernel side
	reach := func(from string, target string) bool {
		f := w.Fn(from)
		if f == nil {
			return false
		}
		seen := map[*ssa.Function]bool{}
		found := false
		var walk func(g *ssa.Function, d int)
		walk = func(g *ssa.Function, d int) {
			if seen[g] || d > 6 {
				return
			}
			seen[g] = true
			eachInstr(g, func(b *ssa.BasicBlock, ins ssa.Instruction) {
				ci, ok := ins.(ssa.CallInstruction)
				if !ok {
					return
				}
				if calleeName(ci.Common()) == target {
					found = true
				}
				if h := ci.Common().StaticCallee(); h != nil && inModule(h) {
					walk(h, d+1)
				}
			})
		}
		walk(f, 0)
		c.Sites += len(seen)
		return found
	}
	qT, sT := "iface:storage.Store.CacheQueueTransaction", "iface:storage.Store.CacheStoreTransaction"
	if c.F("(*kernel.Node).CacheStoreTransactions") != nil {
		c.Require(reach("(*kernel.Node).CacheStoreTransactions", sT) && !reach("(*kernel.Node).CacheStoreTransactions", qT), "reach", "(*kernel.Node).CacheStoreTransactions", "the payload-only peer path stores bodies and never queues them", "the store path reaches CacheQueueTransaction, or no longer stores")
	}
	if c.F("(*kernel.Node).CacheQueueTransactions") != nil {
		c.Require(reach("(*kernel.Node).CacheQueueTransactions", qT), "reach", "(*kernel.Node).CacheQueueTransactions", "the queueing peer path reaches CacheQueueTransaction", "queue path no longer queues")
	}
	c.WhoCalls("iface:storage.Store.CacheRetrieveTransactions", []string{"(*kernel.Node).popAndProcessCacheQueue"}, "a single consumer drains the queue")
	// (5) Node.QueueTransaction: every success return passes CacheQueueTransaction, except for a
	// transaction that is already finalized (a cached body is not the same as a scheduled one)
	if f := c.F("(*kernel.Node).QueueTransaction"); f != nil {
		q := callBlocks(f, Call(qT))
		cut := outEdges(f, q)
		fin := findIfs(f, Bin(token.GTR, Len(Extract(1, Call("iface:storage.Store.ReadTransaction"))), ConstInt(0)))
		for _, i := range fin {
			cut[Edge{i.Block().Index, i.Block().Succs[0].Index}] = true
		}
		bad := ""
		for bi := range reachable(f, f.Blocks[0], cut) {
			b := f.Blocks[bi]
			if r, ok := b.Instrs[len(b.Instrs)-1].(*ssa.Return); ok && !q[bi] && b != f.Recover && ConstNil(retValue(r, 1)) {
				bad = instrPos(c.W, r)
			}
		}
		c.Require(len(q) >= 1 && len(fin) == 1 && bad == "", "postgate", shortName(f)+"|success => queued", "every success return of QueueTransaction passes CacheQueueTransaction unless the transaction is already finalized", "a success return at "+bad+" is reachable without queueing", c.W.Pos(f.Pos()))
	}
	// (5a) a transaction that is not yet cached is queued only after it validated
	if f := c.F("(*kernel.Node).QueueTransaction"); f != nil {
		var fresh []ssa.Instruction
		for _, ci := range findCalls(f, qT) {
			if !dominatedByBranch(f, ci.Block(), BinEither(token.NEQ, Extract(0, Call("iface:storage.Store.CacheGetTransaction")), ConstNil), true) {
				fresh = append(fresh, ci)
			}
		}
		c.MustPass(f, Gate{Name: "tx.Validate(store, now, false) != nil => reject", RejectOnTrue: true, Cond: BinEither(token.NEQ, Call("(*common.VersionedTransaction).Validate", Param("tx")), ConstNil)}, fresh, "queueing a transaction that was not cached before")
	}
	// (5b) every dequeued transaction is looked at: the loop over the retrieved list has no early
	// exit (the queue records of the whole list are already deleted when the loop starts)
	if f := c.F("(*kernel.Node).popAndProcessCacheQueue"); f != nil {
		c.RangeLoop(f, "retrieved", Extract(0, Call("iface:storage.Store.CacheRetrieveTransactions")))
	}
	// (5c) the two peer delivery paths look at every delivered transaction (a finalized / already
	// stored one is skipped, it does not end the delivery)
	for _, n := range []string{"(*kernel.Node).CacheQueueTransactions", "(*kernel.Node).CacheStoreTransactions"} {
		if f := c.F(n); f != nil {
			c.RangeLoop(f, "delivered", Param("txs"))
		}
	}
	// (6) Badger's optimistic conflict detection stays on for both databases: the queue's
	// retrieve-and-delete, the lock takers and the work credit all rely on a conflicting concurrent
	// transaction being refused
	if f := c.F("storage.openDB"); f != nil {
		bad := ""
		for _, ci := range findCalls(f, "(github.com/dgraph-io/badger/v4.Options).WithDetectConflicts") {
			if !ConstBool(true)(ci.Common().Args[1]) {
				bad = instrPos(c.W, ci)
			}
		}
		c.Sites++
		c.Require(bad == "", "config", shortName(f)+"|conflict detection on", "openDB never turns Badger's DetectConflicts off (default: on)", "WithDetectConflicts is called with a value that is not the constant true at "+bad, c.W.Pos(f.Pos()))
	}
	_ = strings.Join
}
