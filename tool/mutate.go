package main

import (
	"fmt"
	"go/ast"
	"go/token"
	"os"
	"os/exec"
	"path/filepath"
	"sort"
	"strings"
	"sync"
	"time"
)

// Mutation sweep of the checker (development aid, not part of any registered check):
// for every function a property's rules analysed, every branch condition, break/continue
// and comparison operator is mutated one at a time through a go/packages overlay (no copy
// of the repository is made), and the property's rules are re-run in a fresh process. A
// surviving mutant is a place where the rules are blind; each survivor is then reviewed
// by hand: irrelevant to the property, or a gap to close.

type mutant struct {
	File  string
	Pos   token.Position
	Func  string
	Op    string
	Old   string
	New   string
	start int
	end   int
}

func mutateSweep(id string, jobs int, only string) error {
	w, err := Load(repoDir(), "")
	if err != nil {
		return err
	}
	c := &Check{ID: id, Tier: "quick", W: w, Funcs: map[string]bool{}}
	if id == "all" {
		// global sweep: union of the anchor functions of every property; a survivor is a mutant
		// that NO property's rules report
		var ids []string
		for k := range registry {
			ids = append(ids, k)
		}
		sort.Strings(ids)
		for _, k := range ids {
			ck := &Check{ID: k, Tier: "quick", W: w, Funcs: map[string]bool{}}
			runProp(ck, registry[k])
			for a := range ck.Anchors {
				c.Funcs[a] = true
			}
		}
	} else {
		f := registry[id]
		if f == nil {
			return fmt.Errorf("no check %s", id)
		}
		runProp(c, f)
		if os.Getenv("MIXVET_MUT_ANCHORS") != "" {
			c.Funcs = c.Anchors
		}
	}
	// functions analysed -> syntax
	type fsyn struct {
		name string
		node ast.Node
	}
	var fs []fsyn
	for name := range c.Funcs {
		fn := w.Fn(name)
		if fn == nil || fn.Syntax() == nil || !inModule(fn) {
			continue
		}
		if only != "" && !strings.Contains(name, only) {
			continue
		}
		fs = append(fs, fsyn{name, fn.Syntax()})
	}
	sort.Slice(fs, func(i, j int) bool { return fs[i].name < fs[j].name })
	src := map[string][]byte{}
	var muts []mutant
	seen := map[string]bool{}
	add := func(fname string, n ast.Node, op, repl string) {
		p := w.Fset.Position(n.Pos())
		e := w.Fset.Position(n.End())
		if _, ok := src[p.Filename]; !ok {
			b, err := os.ReadFile(p.Filename)
			if err != nil {
				return
			}
			src[p.Filename] = b
		}
		old := string(src[p.Filename][p.Offset:e.Offset])
		k := fmt.Sprintf("%s:%d:%d:%s", p.Filename, p.Offset, e.Offset, op)
		if seen[k] {
			return
		}
		seen[k] = true
		nw := strings.ReplaceAll(repl, "$OLD", old)
		muts = append(muts, mutant{File: p.Filename, Pos: p, Func: fname, Op: op, Old: old, New: nw, start: p.Offset, end: e.Offset})
	}
	ops := map[string]bool{}
	for _, o := range strings.Split(os.Getenv("MIXVET_MUT_OPS"), ",") {
		ops[strings.TrimSpace(o)] = true
	}
	flip := map[token.Token]string{token.LSS: "<=", token.LEQ: "<", token.GTR: ">=", token.GEQ: ">", token.EQL: "!=", token.NEQ: "=="}
	for _, x := range fs {
		var body ast.Node
		switch d := x.node.(type) {
		case *ast.FuncDecl:
			body = d.Body
		case *ast.FuncLit:
			body = d.Body
		}
		if body == nil {
			continue
		}
		ast.Inspect(body, func(n ast.Node) bool {
			switch s := n.(type) {
			case *ast.FuncLit:
				return false // closures are separate functions in c.Funcs
			case *ast.IfStmt:
				// plain error propagation is swept separately (MIXVET_MUT_ERR=1: only those)
				isErr := false
				if be, ok := s.Cond.(*ast.BinaryExpr); ok {
					if id, ok := be.X.(*ast.Ident); ok && id.Name == "err" {
						isErr = true
					}
				}
				if errOnly := os.Getenv("MIXVET_MUT_ERR") != ""; errOnly != isErr {
					return true
				}
				add(x.name, s.Cond, "cond-false", "false")
				if ops["neg"] {
					add(x.name, s.Cond, "cond-neg", "!($OLD)")
				}
			case *ast.BranchStmt:
				if s.Tok == token.BREAK && s.Label == nil {
					add(x.name, s, "break->continue", "continue")
				}
				if s.Tok == token.CONTINUE && s.Label == nil {
					add(x.name, s, "continue->break", "break")
				}
			case *ast.BinaryExpr:
				if id, ok := s.X.(*ast.Ident); ok && id.Name == "err" {
					return true
				}
				if os.Getenv("MIXVET_MUT_ERR") != "" {
					return true
				}
				if r, ok := flip[s.Op]; ok && ops["op"] {
					// operator token only
					opPos := w.Fset.Position(s.OpPos)
					if _, ok := src[opPos.Filename]; !ok {
						b, _ := os.ReadFile(opPos.Filename)
						src[opPos.Filename] = b
					}
					k := fmt.Sprintf("%s:%d:op", opPos.Filename, opPos.Offset)
					if !seen[k] {
						seen[k] = true
						muts = append(muts, mutant{File: opPos.Filename, Pos: opPos, Func: x.name, Op: "op " + s.Op.String() + "->" + r, Old: s.Op.String(), New: r, start: opPos.Offset, end: opPos.Offset + len(s.Op.String())})
					}
				}
			}
			return true
		})
	}
	fmt.Printf("%s: %d functions analysed, %d mutants\n", id, len(fs), len(muts))
	if os.Getenv("MIXVET_MUT_DRY") != "" {
		perFn := map[string]int{}
		for _, m := range muts {
			perFn[m.Func]++
		}
		var names []string
		for k := range perFn {
			names = append(names, k)
		}
		sort.Strings(names)
		for _, k := range names {
			fmt.Printf("%4d %s\n", perFn[k], k)
		}
		return nil
	}
	self, _ := os.Executable()
	type res struct {
		m      mutant
		status string
	}
	results := make([]res, len(muts))
	sem := make(chan struct{}, jobs)
	var wg sync.WaitGroup
	start := time.Now()
	for i, m := range muts {
		wg.Add(1)
		go func(i int, m mutant) {
			defer wg.Done()
			sem <- struct{}{}
			defer func() { <-sem }()
			tmp, _ := os.MkdirTemp("", "mixmut-")
			defer os.RemoveAll(tmp)
			b := src[m.File]
			nb := append(append(append([]byte{}, b[:m.start]...), []byte(m.New)...), b[m.end:]...)
			mf := filepath.Join(tmp, "mut.go")
			os.WriteFile(mf, nb, 0o644)
			cmd := exec.Command(self, "check", id)
			cmd.Env = append(os.Environ(), "MIXVET_OVERLAY="+m.File+"="+mf, "MIXVET_EVIDENCE="+tmp, "MIXVET_NO_KNOWN=")
			out, err := cmd.CombinedOutput()
			st := "SURVIVED"
			if err != nil {
				st = "killed"
				if id == "all" {
					var by []string
					for _, l := range strings.Split(string(out), "\n") {
						if strings.Contains(l, " tier=") && !strings.Contains(l, "violations=0") {
							by = append(by, strings.Fields(l)[0])
						}
					}
					st = "killed:" + strings.Join(by, ",")
				}
				if strings.Contains(string(out), "load error") || strings.Contains(string(out), "load/type errors") {
					st = "invalid"
				}
			}
			results[i] = res{m, st}
		}(i, m)
	}
	wg.Wait()
	n := map[string]int{}
	for _, r := range results {
		k := r.status
		if strings.HasPrefix(k, "killed") {
			k = "killed"
		}
		n[k]++
	}
	if id == "all" {
		for _, r := range results {
			if strings.HasPrefix(r.status, "killed:") {
				rel := strings.TrimPrefix(r.m.File, w.Dir+"/")
				fmt.Printf("KILLED\t%s\t%s:%d\t%s\t%s\n", strings.TrimPrefix(r.status, "killed:"), rel, r.m.Pos.Line, r.m.Func, r.m.Op)
			}
		}
	}
	fmt.Printf("%s: killed=%d survived=%d invalid=%d in %.0fs\n", id, n["killed"], n["SURVIVED"], n["invalid"], time.Since(start).Seconds())
	for _, r := range results {
		if r.status == "SURVIVED" {
			rel := strings.TrimPrefix(r.m.File, w.Dir+"/")
			old := strings.Join(strings.Fields(r.m.Old), " ")
			if len(old) > 110 {
				old = old[:110] + "…"
			}
			fmt.Printf("SURVIVED\t%s\t%s:%d\t%s\t%s\t%s\n", id, rel, r.m.Pos.Line, r.m.Func, r.m.Op, old)
		}
	}
	return nil
}
