package main

import (
	"fmt"
	"go/constant"
	"go/types"
	"sort"
	"strings"

	"golang.org/x/tools/go/ssa"
)

// E2 effects: Badger key-family write effects and transaction discipline.

type Effect struct {
	Op     string // set | delete | get
	Family string // name of the prefix constant (graphPrefixUTXO ...), "?" if unresolved
	Fn     *ssa.Function
	Ins    ssa.Instruction
	DB     string // for transaction openings
}

type effectsDB struct {
	w        *World
	prefixes map[string]string // constant value -> constant name
	ctorFam  map[*ssa.Function][]string
	direct   map[*ssa.Function][]Effect
	trans    map[*ssa.Function][]Effect
}

func (w *World) Effects() *effectsDB {
	e := &effectsDB{w: w, prefixes: map[string]string{}, ctorFam: map[*ssa.Function][]string{}, direct: map[*ssa.Function][]Effect{}, trans: map[*ssa.Function][]Effect{}}
	sc := w.Pkgs["storage"].Types.Scope()
	for _, n := range sc.Names() {
		if c, ok := sc.Lookup(n).(*types.Const); ok && c.Val().Kind() == constant.String {
			if strings.Contains(n, "Prefix") {
				e.prefixes[constant.StringVal(c.Val())] = n
			}
		}
	}
	return e
}

const badgerTxn = "*github.com/dgraph-io/badger/v4.Txn"

func isTxnType(t types.Type) bool { return t.String() == badgerTxn }

// prefixConstsIn: prefix constants appearing anywhere in fn's body.
func (e *effectsDB) prefixConstsIn(fn *ssa.Function) []string {
	if f, ok := e.ctorFam[fn]; ok {
		return f
	}
	set := map[string]bool{}
	eachInstr(fn, func(b *ssa.BasicBlock, ins ssa.Instruction) {
		for _, op := range ins.Operands(nil) {
			if c, ok := (*op).(*ssa.Const); ok && c.Value != nil && c.Value.Kind() == constant.String {
				if n, ok := e.prefixes[constant.StringVal(c.Value)]; ok {
					set[n] = true
				}
			}
		}
	})
	var out []string
	for n := range set {
		out = append(out, n)
	}
	sort.Strings(out)
	e.ctorFam[fn] = out
	return out
}

// familyOf resolves the key family of a key operand: prefix constants in its backward
// slice, looking one level into storage key constructors (functions returning []byte).
func (e *effectsDB) familyOf(key ssa.Value) []string {
	set := map[string]bool{}
	for _, v := range backSlice(key, 14) {
		switch x := v.(type) {
		case *ssa.Const:
			if x.Value != nil && x.Value.Kind() == constant.String {
				if n, ok := e.prefixes[constant.StringVal(x.Value)]; ok {
					set[n] = true
				}
			}
		case *ssa.Call:
			if f := x.Call.StaticCallee(); f != nil && inModule(f) && f.Pkg != nil && f.Pkg.Pkg.Name() == "storage" {
				res := f.Signature.Results()
				if res.Len() == 1 && res.At(0).Type().String() == "[]byte" {
					for _, n := range e.prefixConstsIn(f) {
						set[n] = true
					}
				}
			}
		case *ssa.Parameter:
			if x.Type().String() == "[]byte" || x.Type().String() == "string" {
				set["param:"+x.Name()] = true
			}
		}
	}
	var out []string
	for n := range set {
		out = append(out, n)
	}
	sort.Strings(out)
	if len(out) > 1 {
		// a concrete prefix wins over a parameter marker
		var conc []string
		for _, n := range out {
			if !strings.HasPrefix(n, "param:") {
				conc = append(conc, n)
			}
		}
		if len(conc) > 0 {
			out = conc
		}
	}
	if len(out) == 0 {
		out = []string{"?"}
	}
	return out
}

// Direct effects of one function.
func (e *effectsDB) Direct(fn *ssa.Function) []Effect {
	if d, ok := e.direct[fn]; ok {
		return d
	}
	var out []Effect
	eachInstr(fn, func(b *ssa.BasicBlock, ins ssa.Instruction) {
		ci, ok := ins.(ssa.CallInstruction)
		if !ok {
			return
		}
		cc := ci.Common()
		switch calleeName(cc) {
		case "(*github.com/dgraph-io/badger/v4.Txn).Set":
			for _, f := range e.familyOf(cc.Args[1]) {
				out = append(out, Effect{Op: "set", Family: f, Fn: fn, Ins: ins})
			}
		case "(*github.com/dgraph-io/badger/v4.Txn).Delete":
			for _, f := range e.familyOf(cc.Args[1]) {
				out = append(out, Effect{Op: "delete", Family: f, Fn: fn, Ins: ins})
			}
		case "(*github.com/dgraph-io/badger/v4.Txn).SetEntry":
			for _, f := range e.familyOf(cc.Args[1]) {
				out = append(out, Effect{Op: "set", Family: f, Fn: fn, Ins: ins})
			}
		case "(*github.com/dgraph-io/badger/v4.Txn).Get":
			for _, f := range e.familyOf(cc.Args[1]) {
				out = append(out, Effect{Op: "get", Family: f, Fn: fn, Ins: ins})
			}
		case "(*github.com/dgraph-io/badger/v4.DB).Update":
			out = append(out, Effect{Op: "open-rw", Fn: fn, Ins: ins, DB: dbName(cc.Args[0])})
		case "(*github.com/dgraph-io/badger/v4.DB).View":
			out = append(out, Effect{Op: "open-ro", Fn: fn, Ins: ins, DB: dbName(cc.Args[0])})
		case "(*github.com/dgraph-io/badger/v4.DB).NewTransaction":
			op := "open-ro"
			if ConstBool(true)(cc.Args[1]) {
				op = "open-rw"
			} else if !ConstBool(false)(cc.Args[1]) {
				op = "open-rw" // unknown mode: conservatively a write transaction
			}
			out = append(out, Effect{Op: op, Fn: fn, Ins: ins, DB: dbName(cc.Args[0])})
		case "(*github.com/dgraph-io/badger/v4.Txn).Commit":
			out = append(out, Effect{Op: "commit", Fn: fn, Ins: ins})
		case "(*github.com/dgraph-io/badger/v4.DB).DropPrefix", "(*github.com/dgraph-io/badger/v4.DB).DropAll":
			out = append(out, Effect{Op: "drop", Fn: fn, Ins: ins, DB: dbName(cc.Args[0])})
		}
	})
	e.direct[fn] = out // provisional (recursion guard)
	// key passed as a parameter to a module helper: resolve the family at the call site
	eachInstr(fn, func(b *ssa.BasicBlock, ins ssa.Instruction) {
		ci, ok := ins.(ssa.CallInstruction)
		if !ok {
			return
		}
		g := ci.Common().StaticCallee()
		if g == nil || g == fn || !inModule(g) || len(g.Blocks) == 0 {
			return
		}
		for _, x := range e.Direct(g) {
			if !strings.HasPrefix(x.Family, "param:") {
				continue
			}
			pn := strings.TrimPrefix(x.Family, "param:")
			for i, p := range g.Params {
				if p.Name() == pn && i < len(ci.Common().Args) {
					for _, f := range e.familyOf(ci.Common().Args[i]) {
						if strings.HasPrefix(f, "param:") && f != "param:"+pn {
							f = "?"
						}
						out = append(out, Effect{Op: x.Op, Family: f, Fn: fn, Ins: ins})
					}
				}
			}
		}
	})
	e.direct[fn] = out
	return out
}

func dbName(v ssa.Value) string {
	_, p := accessPath(v)
	if len(p) > 0 {
		return p[len(p)-1]
	}
	return "?"
}

// txnCallees: module functions invoked from fn with a *badger.Txn argument, plus
// closures handed to DB.Update / DB.View, plus (all=true) every static module callee.
func (e *effectsDB) callees(fn *ssa.Function, all bool) []*ssa.Function {
	var out []*ssa.Function
	eachInstr(fn, func(b *ssa.BasicBlock, ins ssa.Instruction) {
		ci, ok := ins.(ssa.CallInstruction)
		if !ok {
			return
		}
		cc := ci.Common()
		n := calleeName(cc)
		if strings.HasSuffix(n, "badger/v4.DB).Update") || strings.HasSuffix(n, "badger/v4.DB).View") {
			if mc, ok := cc.Args[1].(*ssa.MakeClosure); ok {
				out = append(out, mc.Fn.(*ssa.Function))
			} else if f, ok := cc.Args[1].(*ssa.Function); ok {
				out = append(out, f)
			}
			return
		}
		f := cc.StaticCallee()
		if f == nil || !inModule(f) || len(f.Blocks) == 0 {
			// closure call through a local value
			if mc, ok := cc.Value.(*ssa.MakeClosure); ok {
				out = append(out, mc.Fn.(*ssa.Function))
			}
			return
		}
		if all {
			out = append(out, f)
			return
		}
		for _, a := range cc.Args {
			if isTxnType(a.Type()) {
				out = append(out, f)
				return
			}
		}
	})
	return out
}

// Transitive effects reachable from fn along calls that pass a transaction (and
// Update/View closures). With all=true, along every static module call.
func (e *effectsDB) Transitive(fn *ssa.Function, all bool) []Effect {
	seen := map[*ssa.Function]bool{}
	var out []Effect
	var walk func(f *ssa.Function)
	walk = func(f *ssa.Function) {
		if seen[f] {
			return
		}
		seen[f] = true
		out = append(out, e.Direct(f)...)
		for _, c := range e.callees(f, all) {
			walk(c)
		}
	}
	walk(fn)
	return out
}

func effectSet(es []Effect, ops ...string) map[string]bool {
	want := map[string]bool{}
	for _, o := range ops {
		want[o] = true
	}
	out := map[string]bool{}
	for _, x := range es {
		if want[x.Op] {
			out[x.Op+":"+x.Family] = true
		}
	}
	return out
}

func setKeys(m map[string]bool) []string {
	var out []string
	for k := range m {
		out = append(out, k)
	}
	sort.Strings(out)
	return out
}

// tabledWriters: functions whose key family is supplied by an operator at run time.
var tabledWriters = map[string]string{
	"main.removeGraphEntries": "offline operator CLI command: deletes a user-named key prefix with the node stopped; not part of node operation",
}

// WhoWrites: the functions that directly set/delete keys of the family must be exactly
// the allowed set (by short name).
func (c *Check) WhoWrites(e *effectsDB, family string, ops []string, allowed []string, why string) bool {
	al := map[string]bool{}
	for _, a := range allowed {
		al[a] = true
	}
	want := map[string]bool{}
	for _, o := range ops {
		want[o] = true
	}
	found := map[string]bool{}
	var bad, sites []string
	for _, fn := range c.W.ModuleFuncs() {
		for _, x := range e.Direct(fn) {
			if !want[x.Op] {
				continue
			}
			if x.Family == family || x.Family == "?" {
				n := shortName(fn)
				_ = tabledWriters
				if x.Family == "?" && tabledWriters[n] != "" {
					continue
				}
				if x.Family == "?" {
					bad = append(bad, n+" writes a key of unresolved family at "+instrPos(c.W, x.Ins))
					continue
				}
				found[n] = true
				sites = append(sites, instrPos(c.W, x.Ins))
				if !al[n] {
					bad = append(bad, n+" "+x.Op+" at "+instrPos(c.W, x.Ins))
				}
			}
		}
	}
	c.Sites += len(c.W.ModuleFuncs())
	key := family + "|" + strings.Join(ops, "+")
	desc := fmt.Sprintf("keys of family %s are %s only by {%s}: %s", family, strings.Join(ops, "/"), strings.Join(allowed, ", "), why)
	if len(bad) > 0 {
		c.Fail("whowrites", key, desc, "unexpected writer: "+strings.Join(bad, "; "), sites...)
		return false
	}
	for _, a := range allowed {
		if !found[a] {
			c.Fail("whowrites", key, desc, "expected writer "+a+" no longer writes this family (rule table out of date or write moved)", sites...)
			return false
		}
	}
	c.OK("whowrites", key, desc, sites...)
	return true
}

// EffectsWithin: the transitive set/delete effects of fn are within allowed and include
// required ("op:family").
func (c *Check) EffectsWithin(e *effectsDB, fn *ssa.Function, allowed, required []string, why string) bool {
	if fn == nil {
		return false
	}
	got := effectSet(e.Transitive(fn, false), "set", "delete")
	al := map[string]bool{}
	for _, a := range allowed {
		al[a] = true
	}
	key := shortName(fn)
	desc := fmt.Sprintf("write effects of %s are within {%s} and include {%s}: %s", shortName(fn), strings.Join(allowed, ", "), strings.Join(required, ", "), why)
	var bad []string
	for g := range got {
		if !al[g] {
			bad = append(bad, "unexpected "+g)
		}
	}
	for _, r := range required {
		if !got[r] {
			bad = append(bad, "missing "+r)
		}
	}
	c.Sites += len(got)
	sort.Strings(bad)
	if len(bad) > 0 {
		c.Fail("effects", key, desc, strings.Join(bad, "; ")+" (got "+strings.Join(setKeys(got), ", ")+")", c.W.Pos(fn.Pos()))
		return false
	}
	c.OK("effects", key, desc, c.W.Pos(fn.Pos()))
	return true
}

// SingleWriteTxn: fn (an exported store method) opens exactly one read-write
// transaction on db, directly; nothing reachable from it by static calls opens another
// read-write transaction; an explicit Commit, if any, is unique and every instruction
// after it on its path is a return.
func (c *Check) SingleWriteTxn(e *effectsDB, fn *ssa.Function, db string) bool {
	if fn == nil {
		return false
	}
	key := shortName(fn)
	desc := "exactly one read-write transaction on " + db + " is opened by " + shortName(fn) + " and all its writes go through it"
	var opens, commits []Effect
	for _, x := range e.Direct(fn) {
		if x.Op == "open-rw" {
			opens = append(opens, x)
		}
		if x.Op == "commit" {
			commits = append(commits, x)
		}
	}
	if len(opens) != 1 || opens[0].DB != db {
		c.Fail("singletxn", key, desc, fmt.Sprintf("%d read-write transaction openings found directly in the method", len(opens)), c.W.Pos(fn.Pos()))
		return false
	}
	if ob := opens[0].Ins.Block(); reachable(fn, ob, nil)[ob.Index] && blockInCycle(fn, ob) {
		c.Fail("singletxn", key, desc, "the transaction is opened inside a loop: one call performs several separately committed transactions", instrPos(c.W, opens[0].Ins))
		return false
	}
	// nested openings through any static callee (except the direct one)
	n := 0
	var where []string
	for _, x := range e.Transitive(fn, true) {
		if x.Op == "open-rw" || x.Op == "drop" {
			n++
			where = append(where, shortName(x.Fn)+" at "+instrPos(c.W, x.Ins))
		}
	}
	if n != 1 {
		c.Fail("singletxn", key, desc, "more than one read-write transaction is reachable: "+strings.Join(where, "; "), c.W.Pos(fn.Pos()))
		return false
	}
	// writes reached must use the opened transaction: every set/delete is reached along txn-passing calls
	viaTxn := effectSet(e.Transitive(fn, false), "set", "delete")
	viaAll := effectSet(e.Transitive(fn, true), "set", "delete")
	for k := range viaAll {
		if !viaTxn[k] {
			c.Fail("singletxn", key, desc, "write effect "+k+" is reachable only along a call that does not carry the transaction", c.W.Pos(fn.Pos()))
			return false
		}
	}
	if len(commits) > 1 {
		c.Fail("singletxn", key, desc, "more than one Commit", c.W.Pos(fn.Pos()))
		return false
	}
	if len(commits) == 1 {
		// Commit is last: its result is returned directly
		cm := commits[0].Ins
		okc := false
		for _, r := range allReturns(fn) {
			if ei := errResultIndex(fn); ei >= 0 && retValue(r, ei) == cm.(ssa.Value) && r.Block() == cm.Block() {
				okc = true
			}
		}
		// and the commit is not reachable from a reject edge: every write call precedes it (dominance)
		if !okc {
			c.Fail("singletxn", key, desc, "Commit is not the final action (its result is not returned directly)", instrPos(c.W, cm))
			return false
		}
	}
	c.Sites += len(viaAll) + 1
	c.OK("singletxn", key, desc, instrPos(c.W, opens[0].Ins))
	return true
}

// blockInCycle: b can reach itself through at least one edge.
func blockInCycle(fn *ssa.Function, b *ssa.BasicBlock) bool {
	for _, s := range b.Succs {
		if s == b || reachable(fn, s, nil)[b.Index] {
			return true
		}
	}
	return false
}
