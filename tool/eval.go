package main

import (
	"fmt"
	"go/constant"
	"go/token"

	"golang.org/x/tools/go/ssa"
)

// Finite-domain evaluation of an extracted CFG fragment: a tiny interpreter for
// integer/boolean SSA values built from named leaves, constants, + - * / % and
// comparisons, with branches, phis and short-circuit operators. Comparisons of
// difference terms depend only on the relative order of finitely many terms, so a grid
// large enough to realise every ordering decides the relation for all values (overflow
// aside, which the code does not guard either). No repository code is executed: the
// interpreter walks the SSA of the extracted fragment.

type leaf struct {
	M    VM
	Name string
}

type interp struct {
	leaves []leaf
	env    map[string]int64
	vals   map[ssa.Value]any
	mem    map[string]any // field/element stores of the fragment, keyed by access path (one abstract cell per path)
}

// memKey names the abstract memory cell behind an address: root value identity + access path.
func memKey(addr ssa.Value) string {
	r, p := accessPath(addr)
	if r == nil {
		return ""
	}
	return fmt.Sprintf("%p", r) + "." + fmt.Sprint(p)
}

// integerCall evaluates the exact-integer methods of common.Integer on int64 models
// (Div truncates like big.Int.Div on non-negative operands).
func (it *interp) integerCall(x *ssa.Call) (any, error) {
	n := calleeName(&x.Call)
	args := callArgs(&x.Call)
	get := func(i int) (int64, error) {
		v, err := it.value(args[i])
		if err != nil {
			return 0, err
		}
		k, ok := v.(int64)
		if !ok {
			return 0, fmt.Errorf("non-integer operand")
		}
		return k, nil
	}
	switch n {
	case "(common.Integer).Add", "(common.Integer).Sub", "(common.Integer).Mul", "(common.Integer).Div", "(common.Integer).Cmp":
		a, err := get(0)
		if err != nil {
			return nil, err
		}
		b, err := get(1)
		if err != nil {
			return nil, err
		}
		switch n {
		case "(common.Integer).Add":
			return a + b, nil
		case "(common.Integer).Sub":
			return a - b, nil
		case "(common.Integer).Mul":
			return a * b, nil
		case "(common.Integer).Div":
			if b == 0 {
				return nil, fmt.Errorf("division by zero")
			}
			return a / b, nil
		default:
			switch {
			case a < b:
				return int64(-1), nil
			case a > b:
				return int64(1), nil
			}
			return int64(0), nil
		}
	case "(common.Integer).Sign":
		a, err := get(0)
		if err != nil {
			return nil, err
		}
		switch {
		case a < 0:
			return int64(-1), nil
		case a > 0:
			return int64(1), nil
		}
		return int64(0), nil
	}
	return nil, fmt.Errorf("cannot evaluate call %s", n)
}

func (it *interp) value(v ssa.Value) (any, error) {
	if u, ok := v.(*ssa.UnOp); ok && u.Op == token.MUL && it.mem != nil {
		if x, ok := it.mem[memKey(u.X)]; ok {
			if cached, done := it.vals[v]; done {
				return cached, nil // a load keeps the value it had when executed
			}
			return x, nil
		}
	}
	for _, l := range it.leaves {
		if l.M(v) {
			x, ok := it.env[l.Name]
			if !ok {
				return nil, fmt.Errorf("no value for %s", l.Name)
			}
			if len(l.Name) > 2 && l.Name[:2] == "b:" {
				return x != 0, nil // boolean leaf
			}
			return x, nil
		}
	}
	if x, ok := it.vals[v]; ok {
		return x, nil
	}
	switch x := v.(type) {
	case *ssa.Const:
		if x.Value == nil {
			return nil, fmt.Errorf("nil constant")
		}
		switch x.Value.Kind() {
		case constant.Int:
			n, _ := constant.Int64Val(x.Value)
			return n, nil
		case constant.Bool:
			return constant.BoolVal(x.Value), nil
		}
	case *ssa.BinOp:
		return it.binop(x)
	case *ssa.UnOp:
		if x.Op == token.NOT {
			a, err := it.value(x.X)
			if err != nil {
				return nil, err
			}
			b, ok := a.(bool)
			if !ok {
				return nil, fmt.Errorf("! on non-bool")
			}
			return !b, nil
		}
	case *ssa.Convert:
		return it.value(x.X)
	case *ssa.Call:
		return it.integerCall(x)
	}
	return nil, fmt.Errorf("cannot evaluate %s", v.String())
}

func (it *interp) binop(x *ssa.BinOp) (any, error) {
	av, err := it.value(x.X)
	if err != nil {
		return nil, err
	}
	bv, err := it.value(x.Y)
	if err != nil {
		return nil, err
	}
	if ab, ok := av.(bool); ok {
		bb, ok2 := bv.(bool)
		if !ok2 {
			return nil, fmt.Errorf("mixed operands")
		}
		switch x.Op {
		case token.AND:
			return ab && bb, nil
		case token.OR:
			return ab || bb, nil
		case token.EQL:
			return ab == bb, nil
		case token.NEQ:
			return ab != bb, nil
		}
		return nil, fmt.Errorf("unsupported bool operator %s", x.Op)
	}
	a, b := av.(int64), bv.(int64)
	switch x.Op {
	case token.ADD:
		return a + b, nil
	case token.SUB:
		return a - b, nil
	case token.MUL:
		return a * b, nil
	case token.QUO:
		if b == 0 {
			return nil, fmt.Errorf("division by zero")
		}
		return a / b, nil
	case token.REM:
		if b == 0 {
			return nil, fmt.Errorf("division by zero")
		}
		return a % b, nil
	case token.LSS:
		return a < b, nil
	case token.LEQ:
		return a <= b, nil
	case token.GTR:
		return a > b, nil
	case token.GEQ:
		return a >= b, nil
	case token.EQL:
		return a == b, nil
	case token.NEQ:
		return a != b, nil
	}
	return nil, fmt.Errorf("unsupported operator %s", x.Op)
}

// run interprets from block b (entered from prev) until stop(block) or a Return.
// It returns the terminal block and, for a Return, the value of result idx (if evaluable).
func (it *interp) run(b, prev *ssa.BasicBlock, stop func(*ssa.BasicBlock) bool) (*ssa.BasicBlock, error) {
	for steps := 0; steps < 256; steps++ {
		for _, ins := range b.Instrs {
			switch x := ins.(type) {
			case *ssa.Phi:
				found := false
				for i, p := range b.Preds {
					if p == prev {
						v, err := it.value(x.Edges[i])
						if err == nil {
							it.vals[x] = v
						}
						found = true
					}
				}
				if !found && prev != nil {
					return nil, fmt.Errorf("phi without matching predecessor")
				}
			case *ssa.BinOp:
				if v, err := it.binop(x); err == nil {
					it.vals[x] = v
				}
			case *ssa.UnOp:
				if x.Op == token.NOT {
					if v, err := it.value(x); err == nil {
						it.vals[x] = v
					}
				}
				if x.Op == token.MUL && it.mem != nil {
					if mv, ok := it.mem[memKey(x.X)]; ok {
						it.vals[x] = mv // snapshot at execution time
					}
				}
			case *ssa.Call:
				if v, err := it.integerCall(x); err == nil {
					it.vals[x] = v
				}
			case *ssa.Store:
				if it.mem != nil {
					if v, err := it.value(x.Val); err == nil {
						it.mem[memKey(x.Addr)] = v
					} else {
						delete(it.mem, memKey(x.Addr))
					}
				}
			}
		}
		if stop != nil && stop(b) {
			return b, nil
		}
		switch t := b.Instrs[len(b.Instrs)-1].(type) {
		case *ssa.If:
			cv, err := it.value(t.Cond)
			if err != nil {
				return nil, err
			}
			c, ok := cv.(bool)
			if !ok {
				return nil, fmt.Errorf("non-bool condition %s = %v (%T)", t.Cond.String(), cv, cv)
			}
			prev = b
			if c {
				b = b.Succs[0]
			} else {
				b = b.Succs[1]
			}
		case *ssa.Jump:
			prev = b
			b = b.Succs[0]
		default:
			return b, nil
		}
	}
	return nil, fmt.Errorf("fragment too long")
}

func newInterp(leaves []leaf, env map[string]int64) *interp {
	return &interp{leaves: leaves, env: env, vals: map[ssa.Value]any{}}
}

func evalInt(v ssa.Value, leaves []leaf, env map[string]int64) (int64, error) {
	x, err := newInterp(leaves, env).value(v)
	if err != nil {
		return 0, err
	}
	n, ok := x.(int64)
	if !ok {
		return 0, fmt.Errorf("not an integer")
	}
	return n, nil
}

func runFragment(b *ssa.BasicBlock, leaves []leaf, env map[string]int64, stop func(*ssa.BasicBlock) bool) (*ssa.BasicBlock, error) {
	return newInterp(leaves, env).run(b, nil, stop)
}

// evalBoolFunc interprets a small boolean function from its entry and returns its result.
func evalBoolFunc(f *ssa.Function, leaves []leaf, env map[string]int64) (bool, error) {
	it := newInterp(leaves, env)
	tb, err := it.run(f.Blocks[0], nil, nil)
	if err != nil {
		return false, err
	}
	r, ok := tb.Instrs[len(tb.Instrs)-1].(*ssa.Return)
	if !ok {
		return false, fmt.Errorf("no return reached")
	}
	v, err := it.value(r.Results[0])
	if err != nil {
		return false, err
	}
	bv, ok := v.(bool)
	if !ok {
		return false, fmt.Errorf("non-bool result")
	}
	return bv, nil
}
