package main

import (
	"fmt"
	"go/constant"
	"go/token"

	"golang.org/x/tools/go/ssa"
)

// Finite-domain evaluation of an extracted CFG fragment: conditions built from named
// leaves, integer constants, +, - and comparisons are evaluated for concrete small
// values; branches are followed until a terminal block. Comparisons of difference
// terms depend only on the relative order of finitely many terms, so a grid large
// enough to realise every ordering decides the relation for all values (overflow
// aside, which the code does not guard either).

type leaf struct {
	M    VM
	Name string
}

type evalErr struct{ msg string }

func evalInt(v ssa.Value, leaves []leaf, env map[string]int64) (int64, error) {
	for _, l := range leaves {
		if l.M(v) {
			x, ok := env[l.Name]
			if !ok {
				return 0, fmt.Errorf("no value for %s", l.Name)
			}
			return x, nil
		}
	}
	switch x := v.(type) {
	case *ssa.Const:
		if x.Value != nil && x.Value.Kind() == constant.Int {
			n, _ := constant.Int64Val(x.Value)
			if g, ok := env["#const:"+x.Value.ExactString()]; ok {
				return g, nil
			}
			return n, nil
		}
	case *ssa.BinOp:
		a, err := evalInt(x.X, leaves, env)
		if err != nil {
			return 0, err
		}
		b, err := evalInt(x.Y, leaves, env)
		if err != nil {
			return 0, err
		}
		switch x.Op {
		case token.ADD:
			return a + b, nil
		case token.SUB:
			return a - b, nil
		case token.QUO:
			if b == 0 {
				return 0, fmt.Errorf("div by zero")
			}
			return a / b, nil
		}
	case *ssa.Convert:
		return evalInt(x.X, leaves, env)
	}
	return 0, fmt.Errorf("cannot evaluate %s", v.String())
}

func evalBool(v ssa.Value, leaves []leaf, env map[string]int64) (bool, error) {
	bo, ok := v.(*ssa.BinOp)
	if !ok {
		return false, fmt.Errorf("not a comparison: %s", v.String())
	}
	a, err := evalInt(bo.X, leaves, env)
	if err != nil {
		return false, err
	}
	b, err := evalInt(bo.Y, leaves, env)
	if err != nil {
		return false, err
	}
	switch bo.Op {
	case token.LSS:
		return a < b, nil
	case token.LEQ:
		return a <= b, nil
	case token.GTR:
		return a > b, nil
	case token.GEQ:
		return a >= b, nil
	case token.EQL:
		return a == b, nil
	case token.NEQ:
		return a != b, nil
	}
	return false, fmt.Errorf("unsupported operator %s", bo.Op)
}

// runFragment interprets branches from block b until stop(block) says terminal;
// returns the terminal block.
func runFragment(b *ssa.BasicBlock, leaves []leaf, env map[string]int64, stop func(*ssa.BasicBlock) bool) (*ssa.BasicBlock, error) {
	for steps := 0; steps < 64; steps++ {
		if stop(b) {
			return b, nil
		}
		switch t := b.Instrs[len(b.Instrs)-1].(type) {
		case *ssa.If:
			c, err := evalBool(t.Cond, leaves, env)
			if err != nil {
				return nil, err
			}
			if c {
				b = b.Succs[0]
			} else {
				b = b.Succs[1]
			}
		case *ssa.Jump:
			b = b.Succs[0]
		default:
			return b, nil
		}
	}
	return nil, fmt.Errorf("fragment too long")
}
