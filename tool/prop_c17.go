package main

import (
	"go/token"
	"sort"
	"strings"

	"golang.org/x/tools/go/ssa"
)

func init() { register("C17", propC17) }

// domConsts: names (from table) of constants c such that block b is dominated by the
// true edge of `subject == c`.
func domConsts(c *Check, fn *ssa.Function, b *ssa.BasicBlock, subject VM, pkg string, names []string) []string {
	var out []string
	for _, n := range names {
		if dominatedByBranch(fn, b, BinEither(token.EQL, subject, c.W.ConstNamed(pkg, n)), true) {
			out = append(out, n)
		}
	}
	sort.Strings(out)
	return out
}

func propC17(c *Check) {
	c.Explain = "Decides the accounting structure behind asset supply: (1) ASSETTOTAL is written only by writeTotalInAsset, which is called only from finalizeTransaction behind the first-finalisation gate, so a transaction changes supply at most once; (2) class table of writeTotalInAsset: supply is increased exactly for deposit (by the deposit amount), mint (by the mint amount) and genesis (by every output), decreased exactly by OutputTypeWithdrawalSubmit outputs of withdrawal-submit transactions, and unchanged otherwise; (3) class table of UnspentOutputs: the output types not materialised are exactly {WithdrawalSubmit, CustodianSlashNodes}, every other OutputType* constant is materialised, unknown types panic; agreement: each non-materialised type is either subtracted from supply or belongs to a transaction class whose validator unconditionally rejects; (4) the total is written only behind the capacity comparison total.Cmp(capacity) > 0 => panic, and Integer.Sub keeps its underflow panic (never negative)."
	c.NotCov = "the equality between the recorded total and the UTXO scan over actual histories; big.Int arithmetic."
	c.Floor(12)
	w := c.W
	e := w.Effects()

	c.WhoWrites(e, "graphPrefixAssetTotal", []string{"set", "delete"}, []string{"storage.writeTotalInAsset"}, "single accounting point")
	c.WhoCalls("storage.writeTotalInAsset", []string{"storage.finalizeTransaction"}, "supply changes only at finalisation")
	if f := c.F("storage.finalizeTransaction"); f != nil {
		firstFinalizationGates(c, f, callInstrs(findCalls(f, "storage.writeTotalInAsset")), "the supply update (at most once per transaction)")
	}

	if f := c.F("storage.writeTotalInAsset"); f != nil {
		typ := Call("(*common.SignedTransaction).TransactionType")
		txTypes := w.constsWithPrefix("common", "TransactionType")
		type upd struct{ op, classes, amount string }
		var got []string
		eachInstr(f, func(b *ssa.BasicBlock, ins ssa.Instruction) {
			cl, ok := ins.(*ssa.Call)
			if !ok {
				return
			}
			n := calleeName(&cl.Call)
			if n != "(common.Integer).Add" && n != "(common.Integer).Sub" {
				return
			}
			cls := domConsts(c, f, b, typ, "common", txTypes)
			amount := "?"
			a := cl.Call.Args[1]
			switch {
			case Path(Param("ver"), "Outputs.[].Amount")(a):
				amount = "output.Amount"
				if dominatedByBranch(f, b, BinEither(token.EQL, Path(Param("ver"), "Outputs.[].Type"), w.ConstNamed("common", "OutputTypeWithdrawalSubmit")), true) {
					amount += "[Type==OutputTypeWithdrawalSubmit]"
				}
			case Path(Call("(*common.Transaction).DepositData"), "Amount")(a):
				amount = "DepositData().Amount"
			case Path(Param("ver"), "Inputs.[].Mint.Amount")(a):
				amount = "Inputs[0].Mint.Amount"
			}
			cname := strings.Join(cls, ",")
			if cname == "" && dominatedByBranch(f, b, Bin(token.GTR, Len(Path(Param("ver"), "Inputs.[].Genesis")), ConstInt(0)), true) {
				cname = "genesis"
			}
			got = append(got, strings.TrimPrefix(n, "(common.Integer).")+" "+cname+" "+amount)
			c.Sites++
		})
		sort.Strings(got)
		want := []string{
			"Add TransactionTypeDeposit DepositData().Amount",
			"Add TransactionTypeMint Inputs[0].Mint.Amount",
			"Add genesis output.Amount",
			"Sub TransactionTypeWithdrawalSubmit output.Amount[Type==OutputTypeWithdrawalSubmit]",
		}
		c.Require(sameSet(got, want), "classtable", shortName(f)+"|supply updates", "supply updates are exactly: "+strings.Join(want, "; "), "found: "+strings.Join(got, "; "))
		// accumulator shapes: no output skipped in the genesis loop
		lps := 0
		for _, b := range f.Blocks {
			if strings.HasPrefix(b.Comment, "rangeindex.loop") {
				lps++
			}
		}
		c.Require(lps == 2, "shape", shortName(f)+"|two output loops", "withdrawal and genesis branches each loop over ver.Outputs", "found "+itoa(lps)+" loops")
		sets := callInstrs(findCalls(f, txnSet))
		cap := Call("common.GetAssetCapacity", Path(Param("ver"), "Asset"))
		c.MustPass(f, Gate{Name: "total.Cmp(capacity) > 0 => panic", RejectOnTrue: true, Cond: Bin(token.GTR, Call("(common.Integer).Cmp", nil, cap), ConstInt(0))}, sets, "writing the new total")
		oks := len(sets) == 1
		if oks {
			a := sets[0].(ssa.CallInstruction).Common().Args
			oks = Call("storage.graphAssetTotalKey", Path(Param("ver"), "Asset"))(a[1]) && Has(Call("(common.Integer).String", PhiNamed("total")))(a[2])
		}
		c.Require(oks, "provenance", shortName(f)+"|Set operands", "the value written under ASSETTOTAL(ver.Asset) is the updated total", "operands changed")
		// the base of the update is the stored total of the same asset
		base := Extract(0, Call("storage.readTotalInAsset", Param("txn"), Path(Param("ver"), "Asset")))
		okb := false
		for _, v := range findValues(f, PhiNamed("total")) {
			for _, ed := range v.(*ssa.Phi).Edges {
				if base(ed) {
					okb = true
				}
			}
		}
		if !okb {
			// straight-line forms: Add/Sub applied directly to the stored total
			for _, v := range findValues(f, Or(Call("(common.Integer).Add", base), Call("(common.Integer).Sub", base))) {
				_ = v
				okb = true
			}
		}
		c.Require(okb, "provenance", shortName(f)+"|base total", "updates start from readTotalInAsset(txn, ver.Asset)", "base changed")
	}
	if f := c.F("(common.Integer).Sub"); f != nil {
		c.MustPass(f, Gate{Name: "x.Cmp(y) < 0 => panic", RejectOnTrue: true,
			Cond: Bin(token.LSS, Call("(common.Integer).Cmp", Has(Param("x")), Has(Param("y"))), ConstInt(0))}, acceptReturns(f), "the result (supply never goes negative)")
	}

	// UnspentOutputs class table (AST, type-resolved)
	fd, p := w.FuncDecl("common", "VersionedTransaction", "UnspentOutputs")
	if fd == nil {
		c.Undecided("anchor", "common.UnspentOutputs", "anchor", "function not found")
		return
	}
	c.Funcs["(*common.VersionedTransaction).UnspentOutputs"] = true
	sws := SwitchOn(p, fd, TagField("Output", "Type"))
	if len(sws) != 1 {
		c.Undecided("anchor", "common.UnspentOutputs|switch out.Type", "exactly one switch over the output type", "found "+itoa(len(sws)))
		return
	}
	var mat, skip []string
	defPanic := false
	for _, cl := range sws[0] {
		c.Sites++
		switch {
		case cl.Default:
			defPanic = cl.Body == "panic"
		case cl.Body == "empty":
			mat = append(mat, cl.Consts...)
		case cl.Body == "continue":
			skip = append(skip, cl.Consts...)
		default:
			skip = append(skip, "?"+cl.Body)
		}
	}
	all := w.constsWithPrefix("common", "OutputType")
	c.Require(sameSet(skip, []string{"OutputTypeWithdrawalSubmit", "OutputTypeCustodianSlashNodes"}), "classtable", "common.UnspentOutputs|skipped types", "the output types that are not materialised are exactly WithdrawalSubmit and CustodianSlashNodes", "skipped: "+strings.Join(skip, ","))
	c.Require(sameSet(append(append([]string{}, mat...), skip...), all) && defPanic, "classtable", "common.UnspentOutputs|partition", "materialised and skipped types partition all OutputType* constants and unknown types panic", "materialised="+strings.Join(mat, ",")+" skipped="+strings.Join(skip, ",")+" all="+strings.Join(all, ","))
	// agreement for the skipped classes
	if f := c.F("(*common.Transaction).validateCustodianSlashNodes"); f != nil {
		c.Require(len(acceptReturns(f)) == 0, "agreement", shortName(f)+"|always rejects", "transactions carrying the non-materialised CustodianSlashNodes output can never validate (validator has no accepting return)", "validator gained an accepting return: its outputs would vanish from supply accounting")
	}
	// loop over outputs appends each materialised output exactly once
	if f := c.F("(*common.VersionedTransaction).UnspentOutputs"); f != nil {
		lp := c.RangeLoop(f, "outputs", Path(Param("tx"), "Outputs"))
		if lp != nil {
			// every back edge either comes from a skipped-type test or from the append block
			okk := true
			for _, p := range lp.Header.Preds {
				if !lp.Header.Dominates(p) {
					continue
				}
				hasAppend := false
				for _, ins := range p.Instrs {
					if cl, ok := ins.(*ssa.Call); ok && calleeName(&cl.Call) == "builtin:append" {
						hasAppend = true
					}
				}
				_, isIf := p.Instrs[len(p.Instrs)-1].(*ssa.If)
				if !hasAppend && !isIf {
					okk = false
				}
			}
			c.Require(okk, "shape", shortName(f)+"|append or skip", "each iteration either appends the output or leaves through a type test", "an iteration completes another way")
		}
	}
}
