package main

import (
	"go/token"
	"go/types"
	"strings"

	"golang.org/x/tools/go/ssa"
)

func init() { register("C05", propC05) }

func storeBoundary(cc *ssa.CallCommon) bool {
	if !cc.IsInvoke() {
		return false
	}
	t := typeShort(cc.Value.Type())
	return strings.HasPrefix(t, "common.") && (strings.Contains(t, "Store") || strings.Contains(t, "Reader") || strings.Contains(t, "Locker"))
}

func propC05(c *Check) {
	c.Explain = "Panic-site inventory with guard discharge from (*VersionedTransaction).Validate over every module function it reaches through static calls, closures and non-store interface invokes (calls through the common.DataStore family are the analysis boundary). Every explicit panic, slice/array/string index, slice expression, integer division, unchecked type assertion, slice-to-array conversion, make with a possibly negative length, update of a possibly nil map, call into encoding/binary and math/big functions with documented panics, and every dereference of a pointer returned by a store call must be discharged by: a constant index into a fixed array; the range index of the same slice; interval facts on len(<access path>) or integer fields established by dominating branch edges in the function or at every call site on the way from the entry (fixpoint over the call graph, paths whose fields are stored to in the reachable code are not trusted); a dominating nil test; an explicit panic whose guard is refuted by those facts; or an entry of the reviewed invariant table /verif/tables/nopanic_C05.tsv (function, kind, construct, count, reason). Anything else is reported with its call chain. Also decided: the two callers that run validation without recover exist (popAndProcessCacheQueue, validateSnapshotTransaction) and peer bundles are queued without validation. Validate's own count / index / extra-size bounds gate the first payload encoding; pointer-valued map lookups are nil-dereference sources; integer width model (value-preserving conversions, wrap-aware sums)."
	c.NotCov = "general nil-dereference of pointers not returned by the store boundary, stack/allocation exhaustion, panics inside third-party and standard libraries other than the tabled calls; invariant-tabled sites are trusted as written."
	f := c.F("(*common.VersionedTransaction).Validate")
	if f == nil {
		return
	}
	np := &nopanic{c: c, entry: f, boundary: storeBoundary, skipPanicsIn: integerSkipPanics, preCall: integerPreCall}
	np.run("C05", func(fn *ssa.Function) func(v ssa.Value) string {
		return func(v ssa.Value) string {
			// pointer results of store-interface calls
			if ex, ok := v.(*ssa.Extract); ok {
				if cl, ok := ex.Tuple.(*ssa.Call); ok && storeBoundary(&cl.Call) {
					return "result of " + calleeName(&cl.Call)
				}
			}
			if cl, ok := v.(*ssa.Call); ok && storeBoundary(&cl.Call) {
				return "result of " + calleeName(&cl.Call)
			}
			// pointer-valued map lookups: nil when the key is absent
			if lk, ok := v.(*ssa.Lookup); ok && !lk.CommaOk {
				if _, isMap := lk.X.Type().Underlying().(*types.Map); isMap {
					if _, isPtr := lk.Type().Underlying().(*types.Pointer); isPtr {
						return "map lookup " + exprText(fn, lk.X) + "[" + exprText(fn, lk.Index) + "]"
					}
				}
			}
			return ""
		}
	})
	c.Floor(3)
	// the encoder's panic bounds are guarded inside Validate itself, before the first encoding
	// (the reviewed table entries for EncodeTransaction / EncodeInput cite exactly these guards)
	{
		w := c.W
		tx := Path(Param("ver"), "")
		_ = tx
		enc := callInstrs(findCalls(f, "(*common.VersionedTransaction).PayloadMarshal"))
		enc = append(enc, callInstrs(findCalls(f, "(*common.VersionedTransaction).PayloadHash"))...)
		lim := w.ConstNamed("common", "SliceCountLimit")
		c.MustPass(f, Gate{Name: "len(tx.Inputs) > SliceCountLimit => reject", RejectOnTrue: true, Cond: Bin(token.GTR, Len(Path(Param("ver"), "Inputs")), lim)}, enc, "the first payload encoding (EncodeTransaction panics above the limit)")
		c.MustPass(f, Gate{Name: "len(tx.Outputs) > SliceCountLimit => reject", RejectOnTrue: true, Cond: Bin(token.GTR, Len(Path(Param("ver"), "Outputs")), lim)}, enc, "the first payload encoding")
		c.MustPass(f, Gate{Name: "len(tx.References) > SliceCountLimit => reject", RejectOnTrue: true, Cond: Bin(token.GTR, Len(Path(Param("ver"), "References")), lim)}, enc, "the first payload encoding")
		c.MustPass(f, Gate{Name: "len(tx.Extra) > tx.GetExtraLimit() => reject", RejectOnTrue: true, Cond: Bin(token.GTR, Len(Path(Param("ver"), "Extra")), Call("(*common.SignedTransaction).GetExtraLimit"))}, enc, "the first payload encoding")
		if lp := c.RangeLoop(f, "inputs#1/1", Path(Param("ver"), "Inputs")); lp != nil {
			c.LoopGate(f, lp, Gate{Name: "in.Index > InputIndexLimit => reject", RejectOnTrue: true, Cond: Bin(token.GTR, Path(Param("ver"), "Inputs.[].Index"), w.ConstNamed("common", "InputIndexLimit"))}, "EncodeInput panics above the limit")
			okd := true
			for _, e := range enc {
				if !lp.Header.Dominates(e.Block()) {
					okd = false
				}
			}
			c.Require(okd && len(enc) >= 2, "order", shortName(f)+"|index scan before encoding", "the input-index scan precedes every payload encoding", "an encoding is reachable before the scan")
		}
	}
	// context: unrecovered callers and unvalidated queueing
	for _, n := range []string{"(*kernel.Node).popAndProcessCacheQueue", "(*kernel.Node).validateSnapshotTransaction"} {
		if g := c.F(n); g != nil {
			has := len(findCalls(g, "(*common.VersionedTransaction).Validate")) == 1
			rec := false
			eachInstr(g, func(b *ssa.BasicBlock, ins ssa.Instruction) {
				if cl, ok := ins.(*ssa.Call); ok && calleeName(&cl.Call) == "builtin:recover" {
					rec = true
				}
			})
			c.Require(has, "context", n+"|validates without recover", "validation runs in "+n+" (recover present: "+map[bool]string{true: "yes", false: "no"}[rec]+")", "call not found")
		}
	}
	if g := c.F("(*kernel.Node).CacheQueueTransactions"); g != nil {
		c.Require(len(findCalls(g, "(*common.VersionedTransaction).Validate")) == 0, "context", shortName(g)+"|queues unvalidated", "peer bundles are queued without validation (so the background loop sees raw peer data)", "validation added here")
	}
}
