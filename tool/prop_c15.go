package main

import (
	"go/token"
	"sort"
	"strings"

	"golang.org/x/tools/go/ssa"
)

func init() { register("C15", propC15) }

// txnTree: functions reachable from fn along transaction-passing calls.
func txnTree(e *effectsDB, fn *ssa.Function) []*ssa.Function {
	seen := map[*ssa.Function]bool{}
	var out []*ssa.Function
	var walk func(f *ssa.Function)
	walk = func(f *ssa.Function) {
		if seen[f] {
			return
		}
		seen[f] = true
		out = append(out, f)
		for _, g := range e.callees(f, false) {
			walk(g)
		}
	}
	walk(fn)
	sort.Slice(out, func(i, j int) bool { return shortName(out[i]) < shortName(out[j]) })
	return out
}

// firstFinalizationGates checks that every target in finalizeTransaction lies behind
// Get(FINALIZATION key) == ErrKeyNotFound.
func firstFinalizationGates(c *Check, f *ssa.Function, targets []ssa.Instruction, what string) {
	gerr := Extract(1, Call(txnGet, Param("txn"), Call("storage.graphFinalizationKey", Call("(*common.VersionedTransaction).PayloadHash", Param("ver")))))
	c.MustPass(f, Gate{Name: "Get(FINALIZATION key) err == nil => return nil (already finalized)", RejectOnTrue: true, Cond: BinEither(token.EQL, gerr, ConstNil)}, targets, what)
	c.MustPass(f, Gate{Name: "err != ErrKeyNotFound => reject", RejectOnTrue: true, Cond: BinEither(token.NEQ, gerr, errKeyNotFound)}, targets, what)
}

func propC15(c *Check) {
	c.Explain = "Decides the structural half of atomic, idempotent finalisation: (1) WriteSnapshot holds the store mutex, opens exactly one read-write transaction on snapshotsDB (not in a loop, no nested opening, no cacheDB access), every write effect it reaches travels along calls carrying that transaction, Commit is unique, last, and reachable only past the error gates of writeSnapshot and writeSnapshotWork; (2) the write-effect set of WriteSnapshot contains every record family the property names (FINALIZATION, UTXO, GHOST, NODESTATEQUEUE, CUSTODIANUPDATE, ASSETINFO, ASSETTOTAL, WITHDRAWAL, UNIQUE, SNAPSHOT, WORKSNAPSHOT, TOPOLOGY, SNAPTOPO) and nothing else; (3) no error from a Badger write or from a transaction-carrying helper is dropped anywhere in that call tree (so a failed effect aborts before Commit); (4) finalizeTransaction performs all its effects only on the Get(FINALIZATION)==ErrKeyNotFound edge and returns nil without writing when the record exists; every unspent output is written or the call fails; (5) writeTopology writes only on not-found, else panics."
	c.NotCov = "Badger's own atomicity and durability; in-memory node state after a failed write (the caller panics)."
	c.Floor(30)
	w := c.W
	e := w.Effects()

	ws := c.F("(*storage.BadgerStore).WriteSnapshot")
	if ws == nil {
		return
	}
	c.EntryLock(ws, "mutex", true)
	c.SingleWriteTxn(e, ws, "snapshotsDB")
	fams := []string{"set:graphPrefixFinalization", "set:graphPrefixUTXO", "set:graphPrefixGhost", "set:graphPrefixNodeStateQueue", "set:graphPrefixCustodianUpdate",
		"set:graphPrefixAssetInfo", "set:graphPrefixAssetTotal", "set:graphPrefixWithdrawal", "set:graphPrefixUnique", "set:graphPrefixSnapshot",
		"set:graphPrefixWorkSnapshot", "set:graphPrefixTopology", "set:graphPrefixSnapTopology"}
	c.EffectsWithin(e, ws, fams, fams, "all effects named by the property are in the one transaction, and no others")
	// no cacheDB access anywhere below
	bad := ""
	for _, x := range e.Transitive(ws, true) {
		if x.DB == "cacheDB" {
			bad = shortName(x.Fn) + " at " + instrPos(w, x.Ins)
		}
	}
	c.Require(bad == "", "effects", shortName(ws)+"|no cacheDB", "finalisation never touches the cache database (a second, non-atomic store)", bad)
	commits := callInstrs(findCalls(ws, "(*github.com/dgraph-io/badger/v4.Txn).Commit"))
	c.MustPass(ws, Gate{Name: "writeSnapshot(txn, snap) != nil => reject", RejectOnTrue: true, Cond: BinEither(token.NEQ, Call("storage.writeSnapshot", nil, Param("snap")), ConstNil)}, commits, "Commit")
	c.MustPass(ws, Gate{Name: "writeSnapshotWork(txn, snap, signers) != nil => reject", RejectOnTrue: true, Cond: BinEither(token.NEQ, Call("storage.writeSnapshotWork", nil, Param("snap"), Param("signers")), ConstNil)}, commits, "Commit")
	// the txn handed down is the one opened here
	open := Call("(*github.com/dgraph-io/badger/v4.DB).NewTransaction")
	okt := true
	for _, n := range []string{"storage.writeSnapshot", "storage.writeSnapshotWork", "(*github.com/dgraph-io/badger/v4.Txn).Commit"} {
		for _, ci := range findCalls(ws, n) {
			if _, isDefer := ci.(*ssa.Defer); isDefer {
				continue
			}
			if !open(ci.Common().Args[0]) {
				okt = false
			}
		}
	}
	c.Require(okt, "provenance", shortName(ws)+"|same txn", "writeSnapshot, writeSnapshotWork and Commit all use the transaction opened in WriteSnapshot", "a different transaction value is used")
	dis := findCalls(ws, "(*github.com/dgraph-io/badger/v4.Txn).Discard")
	okd := false
	for _, d := range dis {
		if _, isDefer := d.(*ssa.Defer); isDefer && d.Block() == ws.Blocks[0] {
			okd = true
		}
	}
	c.Require(okd, "shape", shortName(ws)+"|deferred Discard", "the transaction is discarded on every non-commit exit (deferred in the entry block)", "no deferred Discard")

	// (3) error discipline over the whole transaction tree
	tree := txnTree(e, ws)
	nf := 0
	for _, f := range tree {
		has := false
		eachInstr(f, func(b *ssa.BasicBlock, ins ssa.Instruction) {
			if cl, ok := ins.(*ssa.Call); ok && txnWriteCalls(calleeName(&cl.Call), cl) {
				has = true
			}
		})
		if !has {
			continue
		}
		nf++
		c.Funcs[shortName(f)] = true
		c.ErrorsPropagated(f, txnWriteCalls, "a failed effect must abort the snapshot write before Commit")
	}
	c.Require(nf >= 12, "floor", "C15|txn tree size", "the finalisation transaction tree holds at least 12 functions with storage calls", "found "+itoa(nf))

	// (4) finalizeTransaction
	if f := c.F("storage.finalizeTransaction"); f != nil {
		var targets []ssa.Instruction
		targets = append(targets, callInstrs(findCalls(f, txnSet))...)
		for _, n := range []string{"storage.writeAssetInfo", "storage.writeUTXO", "storage.writeTotalInAsset"} {
			cs := findCalls(f, n)
			c.Require(len(cs) >= 1, "shape", shortName(f)+"|calls "+n, "finalizeTransaction applies "+n, "call missing")
			targets = append(targets, callInstrs(cs)...)
		}
		firstFinalizationGates(c, f, targets, "any effect of finalizeTransaction")
		sets := findCalls(f, txnSet)
		oks := len(sets) == 1
		if oks {
			a := sets[0].Common().Args
			oks = Call("storage.graphFinalizationKey")(a[1]) && Has(Call("(*common.SnapshotWithTopologicalOrder).PayloadHash", Param("snap")))(a[2]) || Call("storage.graphFinalizationKey")(a[1]) && Has(Call("(*common.Snapshot).PayloadHash"))(a[2])
		}
		c.Require(oks, "provenance", shortName(f)+"|finalization value", "the finalization record maps the transaction to snap.PayloadHash()", "record value changed")
		lp := c.RangeLoop(f, "unspent outputs", Call("(*common.VersionedTransaction).UnspentOutputs", Param("ver")))
		c.LoopGate(f, lp, Gate{Name: "writeUTXO(txn, utxo, ver, ...) != nil => reject", RejectOnTrue: true,
			Cond: BinEither(token.NEQ, Call("storage.writeUTXO", Param("txn")), ConstNil)}, "every unspent output is materialised or finalisation fails")
		// the already-finalized path returns nil
		n := 0
		gerr := Extract(1, Call(txnGet, Param("txn"), Call("storage.graphFinalizationKey")))
		for _, r := range allReturns(f) {
			if ConstNil(retValue(r, 0)) && dominatedByBranch(f, r.Block(), BinEither(token.EQL, gerr, ConstNil), true) {
				n++
			}
		}
		c.Require(n == 1, "shape", shortName(f)+"|already finalized => nil", "a transaction already finalized returns nil without effects (first record wins)", "found "+itoa(n)+" such returns")
	}
	if f := c.F("storage.writeSnapshot"); f != nil {
		lp := c.RangeLoop(f, "snap.Transactions", Path(Param("snap"), "Transactions"))
		c.LoopGate(f, lp, Gate{Name: "finalizeTransaction(txn, ver, snap) != nil => reject", RejectOnTrue: true,
			Cond: BinEither(token.NEQ, Call("storage.finalizeTransaction", Param("txn"), nil, Param("snap")), ConstNil)}, "every transaction of the snapshot is finalised or the write fails")
		c.LoopEffect(f, lp, func(ins ssa.Instruction) bool {
			cl, ok := ins.(*ssa.Call)
			return ok && calleeName(&cl.Call) == txnSet && Call("storage.graphUniqueKey", Path(Param("snap"), "NodeId"))(cl.Call.Args[1])
		}, "Set(UNIQUE(node, tx))", "per-node uniqueness record for every transaction")
		rets := acceptReturns(f)
		okr := len(rets) == 1 && Call("storage.writeTopology", Param("txn"), Param("snap"))(retValue(rets[0].(*ssa.Return), 0))
		c.Require(okr, "shape", shortName(f)+"|ends with writeTopology", "writeSnapshot's only accepting return is the verdict of writeTopology(txn, snap)", "accepting return changed")
	}
	if f := c.F("storage.writeTopology"); f != nil {
		sets := callInstrs(findCalls(f, txnSet))
		gerr := Extract(1, Call(txnGet, Param("txn"), Call("storage.graphTopologyKey", Path(Param("snap"), "TopologicalOrder"))))
		c.MustPass(f, Gate{Name: "Get(TOPOLOGY key) err != ErrKeyNotFound => panic", RejectOnTrue: true, Cond: BinEither(token.NEQ, gerr, errKeyNotFound)}, sets, "writing a topology entry (never over an existing position)")
		c.Require(len(sets) == 2, "shape", shortName(f)+"|two writes", "topology entry and reverse index are both written", "found "+itoa(len(sets)))
	}
	_ = strings.Join
}
