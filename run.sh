#!/bin/bash
# usage: run.sh <ID> [quick|thorough]   -- static check of one property on /repo's working tree
cd /verif
. /verif/env.sh
[ -x /verif/bin/mixvet ] || bash /verif/setup.sh >/dev/null
exec /verif/bin/mixvet check "$1" --tier "${2:-${VERIF_TIER:-quick}}"
