#!/bin/bash
# builds the static checker from files on disk only (offline)
set -euo pipefail
cd /verif/tool
. /verif/env.sh
mkdir -p /verif/bin /verif/evidence
GOFLAGS=-mod=mod go build -o /verif/bin/mixvet .
echo "built /verif/bin/mixvet"
