# sourced by setup.sh and run.sh: pinned offline toolchain
export PATH=/opt/veriftools/go1.26.8/bin:$PATH
export GOTOOLCHAIN=local GOPROXY=off GOSUMDB=off GOWORK=off
unset GOFLAGS
