#!/usr/bin/env python3
"""Regenerates /verif/MANIFEST.json from scripts/claims.json (claimed checks) and
scripts/na.json (not-applicable reasons). Every property in properties.jsonl is either
claimed or listed under not_applicable."""
import json, os
V = "/verif"
ids = [json.loads(l)["id"] for l in open(f"{V}/properties.jsonl")]
claims = json.load(open(f"{V}/scripts/claims.json"))
na = json.load(open(f"{V}/scripts/na.json"))
checks = []
for i in ids:
    if i not in claims:
        continue
    c = claims[i]
    checks.append({
        "property_id": i,
        "quick_cmd": f"bash /verif/run.sh {i} quick",
        "thorough_cmd": f"bash /verif/run.sh {i} thorough",
        "evidence_file": f"/verif/evidence/{i}.json",
        "replay_cmd_template": "cat {path}",
        "engine": "mixvet",
        "level_claimed": {"category": "other", "text": c["text"], "design_ref": f"DESIGN.md section 3, {i}"},
        "level_note": c.get("note", "Trusted: go/types+go/ssa model of the program (x/tools v0.29.0), Go mutex and Badger transaction semantics, the reviewed tables under /verif/tables. Structural necessary conditions only; the behavioural quantifier is not discharged."),
        "technique": c["technique"],
    })
napp = []
for i in ids:
    if i in claims:
        continue
    napp.append({"property_id": i, "reason": na.get(i, "not built yet: no static rule has been completed for this property")})
m = {
    "version": 1,
    "setup_cmd": "bash /verif/setup.sh",
    "hooks": {"guard": "verif", "enable": "none needed: every check is static and reads /repo's working tree as it is; no hook or instrumentation commit exists", "baseline_off_cmd": "bash /verif/baseline.sh", "source_commits": [], "add_only": True},
    "engines": [{"name": "mixvet", "path": "/verif/tool", "serves_properties": [c["property_id"] for c in checks],
                 "kind_free_text": "repository-specific static analyser over go/types + go/ssa: must-pass-through gates by CFG edge removal, accumulator/phi shapes, key-family write effects, lock discipline, panic-site inventory, error-flow, codec structure, purity"}],
    "checks": checks,
    "notes": "Static analysis only (no repository code is executed). quick = all rule instances of the property on /repo's working tree; thorough = the same plus the self-test corpus /verif/variants/<ID>/*.patch (each single-edit variant must be reported, in a scratch copy under $TMPDIR removed within the run). See DESIGN.md.",
    "not_applicable": napp,
}
json.dump(m, open(f"{V}/MANIFEST.json", "w"), indent=1)
print("claimed", len(checks), "n/a", len(napp))
