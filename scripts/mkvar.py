#!/usr/bin/env python3
"""mkvar.py ID name expect-substring file  (stdin: OLD\n=====\nNEW[\n#####\n[@@ otherfile\n]OLD\n=====\nNEW]...)
Writes /verif/variants/<ID>/<name>.patch: a small variant of /repo (relative to the current
working tree) that the check for <ID> must report with an obligation key/description
containing <expect-substring>."""
import sys, difflib, os
pid, name, expect, path = sys.argv[1:5]
blocks = sys.stdin.read().split("\n#####\n")
files = {}
cur = path
for blk in blocks:
    if blk.startswith("@@ "):
        first, blk = blk.split("\n", 1)
        cur = first[3:].strip()
    old, new = blk.split("\n=====\n")
    old = old.rstrip("\n"); new = new.rstrip("\n")
    if cur not in files:
        src = open(os.path.join("/repo", cur)).read()
        files[cur] = [src, src]
    if files[cur][1].count(old) != 1:
        sys.exit("OLD must occur exactly once in %s, occurs %d" % (cur, files[cur][1].count(old)))
    files[cur][1] = files[cur][1].replace(old, new)
d = os.path.join("/verif/variants", pid)
os.makedirs(d, exist_ok=True)
with open(os.path.join(d, name + ".patch"), "w") as f:
    f.write("# expect: %s\n" % expect)
    for p, (src, dst) in files.items():
        f.write("".join(difflib.unified_diff(src.splitlines(True), dst.splitlines(True), "a/" + p, "b/" + p)))
print("wrote", os.path.join(d, name + ".patch"))
