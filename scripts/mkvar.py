#!/usr/bin/env python3
"""mkvar.py ID name expect-substring file  (stdin: OLD\n=====\nNEW)
Writes /verif/variants/<ID>/<name>.patch: a single-edit variant of /repo (relative to the
current working tree) that the check for <ID> must report with an obligation key containing
<expect-substring>."""
import sys, difflib, os
pid, name, expect, path = sys.argv[1:5]
old, new = sys.stdin.read().split("\n=====\n")
new = new.rstrip("\n")
old = old.rstrip("\n")
src = open(os.path.join("/repo", path)).read()
if src.count(old) != 1:
    sys.exit("OLD must occur exactly once, occurs %d" % src.count(old))
dst = src.replace(old, new)
diff = "".join(difflib.unified_diff(src.splitlines(True), dst.splitlines(True), "a/" + path, "b/" + path))
d = os.path.join("/verif/variants", pid)
os.makedirs(d, exist_ok=True)
with open(os.path.join(d, name + ".patch"), "w") as f:
    f.write("# expect: %s\n" % expect)
    f.write(diff)
print("wrote", os.path.join(d, name + ".patch"))
