#!/bin/bash
# seedverify.sh /tmp/seed_out/<ID>/<mN>  : independently confirm a seeded change and record it under /verif/seeded/<ID>-<mN>/
#  1. demo passes on unmodified code  2. patch applies, repo builds  3. demo fails with the patch
#  4. existing tests of the touched packages pass with the patch  5. which /verif checks report it
set -u
SRC=$(readlink -f "$1"); ID=$(basename $(dirname $SRC)); MN=$(basename $SRC)
export PATH=/opt/veriftools/go1.26.8/bin:$PATH GOTOOLCHAIN=local GOPROXY=off GOSUMDB=off GOFLAGS=-mod=vendor
TAG=${SEED_TAG:-}; W=/tmp/sv_${ID}_${TAG}${MN}; LOG=/tmp/sv_${ID}_${TAG}${MN}.log; : > $LOG
git -C /repo worktree remove --force $W >/dev/null 2>&1; rm -rf $W
git -C /repo worktree add --detach $W HEAD -q || exit 2
DEMO=$(python3 -c "import json;print(json.load(open('$SRC/meta.json'))['demo_cmd'])")
PKGS=$(grep -E '^\+\+\+ b/' $SRC/patch.diff | sed 's#+++ b/##' | xargs -n1 dirname | sort -u | sed 's#^#./#;s#$#/#' | tr '\n' ' ')
# place demo tests next to the package named in demo_cmd
DPKG=$(echo "$DEMO" | grep -oE '\./[a-z0-9/_]+/' | head -1)
for t in $SRC/*_test.go; do [ -f "$t" ] && cp "$t" $W/$DPKG; done
for t in $SRC/*/*_test.go; do [ -f "$t" ] && cp "$t" $W/$(basename $(dirname $t))/; done
r_pass0=FAIL; r_build=FAIL; r_fail1=FAIL; r_tests=FAIL
(cd $W && eval "$DEMO" >>$LOG 2>&1) && r_pass0=ok
(cd $W && git apply $SRC/patch.diff >>$LOG 2>&1 && go build ./... >>$LOG 2>&1) && r_build=ok
if [ $r_build = ok ]; then
  (cd $W && eval "$DEMO" >>$LOG 2>&1) || r_fail1=ok
  for t in $SRC/*_test.go; do rm -f $W/$DPKG/$(basename $t); done
  for t in $SRC/*/*_test.go; do [ -f "$t" ] && rm -f $W/$(basename $(dirname $t))/$(basename $t); done
  (cd $W && go test $PKGS -count=1 -timeout 25m >>$LOG 2>&1) && r_tests=ok
fi
CAUGHT=$(/verif/scripts/seedcheck.sh $SRC/patch.diff all 2>/dev/null | grep -E "^C[0-9]+ violations=" | awk '{print $1}' | tr '\n' ' ')
git -C /repo worktree remove --force $W >/dev/null 2>&1
echo "$ID ${TAG}$MN demo_passes_clean=$r_pass0 builds=$r_build demo_fails_patched=$r_fail1 existing_tests($PKGS)=$r_tests caught_by=[$CAUGHT]"
if [ $r_pass0 = ok ] && [ $r_build = ok ] && [ $r_fail1 = ok ] && [ $r_tests = ok ]; then
  D=/verif/seeded/${ID}-${TAG}${MN}; mkdir -p $D; cp $SRC/patch.diff $D/; for t in $SRC/*_test.go; do [ -f "$t" ] && cp "$t" $D/$(basename $t).txt; done
  for t in $SRC/*/*_test.go; do [ -f "$t" ] && cp "$t" $D/$(basename $(dirname $t))_$(basename $t).txt; done
  python3 - "$SRC/meta.json" "$D/meta.json" "$CAUGHT" "$PKGS" "$DEMO" <<'PY'
import json,sys
m=json.load(open(sys.argv[1]))
m["caught_by"]=sys.argv[3].split()
m["confirmed"]={"demo_passes_on_clean_tree":True,"builds_with_patch":True,"demo_fails_with_patch":True,"existing_tests_pass_with_patch":sys.argv[4].strip(),"how":"scripts/seedverify.sh in a scratch worktree of /repo HEAD (removed afterwards); checks run on a scratch copy with the patch applied"}
m["demo_cmd"]=sys.argv[5]
json.dump(m,open(sys.argv[2],"w"),indent=1)
PY
  echo "KEPT $D"
else
  echo "REJECTED (see $LOG)"
fi
