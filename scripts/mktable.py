#!/usr/bin/env python3
"""mktable.py ID < dump   — builds /verif/tables/nopanic_<ID>.tsv from the UNGUARDED dump of the
checker (function, kind, construct, count) and the reviewed reasons in scripts/reasons_<ID>.json:
a list of [function-substring, kind-or-*, construct-substring-or-*, reason, optional [guards]]; first match wins.
The optional guards are substrings of dominating branch conditions (as printed by MIXVET_DUMP_GUARDS=1) that the
reviewed reason relies on: the checker rejects the entry when one of them no longer dominates the site.
Sites without a reviewed reason are printed and make the script fail (they stay violations)."""
import sys, json
pid = sys.argv[1]
rules = json.load(open(f"/verif/scripts/reasons_{pid}.json"))
out, missing = [], []
for line in sys.stdin:
    line = line.rstrip("\n")
    if not line: continue
    fn, kind, det, n = line.split("\t")
    for rule in rules:
        f, k, d, reason = rule[:4]
        req = " && ".join(rule[4]) if len(rule) > 4 else ""
        if f in fn and (k == "*" or k == kind) and (d == "*" or d in det):
            out.append("\t".join([fn, kind, det, n, reason, req]).rstrip("\t")); break
    else:
        missing.append(line)
open(f"/verif/tables/nopanic_{pid}.tsv", "w").write(
    "# reviewed invariant table for the nopanic check of %s: function<TAB>kind<TAB>construct<TAB>count<TAB>reason[<TAB>required dominating guards joined by &&]\n" % pid
    + "# a site listed here is protected by an invariant the analysis cannot see; count bounds how many such sites the function may hold\n"
    + "\n".join(out) + "\n")
print("tabled", len(out), "missing", len(missing))
for m in missing: print("NO REASON:", m)
sys.exit(1 if missing else 0)
