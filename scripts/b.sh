#!/bin/bash
# dev helper: rebuild the tool
cd /verif/tool && . /verif/env.sh && GOFLAGS=-mod=mod go build -o /verif/bin/mixvet . 
