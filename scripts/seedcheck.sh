#!/bin/bash
# seedcheck.sh <patch.diff> [IDs]  : run the checks against a scratch copy of /repo with the patch applied.
# Prints, per property, whether its check reports a violation. The copy is removed afterwards.
set -u
P=$(readlink -f "$1"); IDS=${2:-all}
T=$(mktemp -d /tmp/seedchk-XXXX)
rsync -a --exclude .git /repo/ $T/repo/
if ! (cd $T/repo && patch -p1 -s < "$P"); then echo "PATCH DOES NOT APPLY"; rm -rf $T; exit 2; fi
MIXVET_REPO=$T/repo MIXVET_EVIDENCE=$T/ev /verif/bin/mixvet check $IDS > $T/out.txt 2>&1
grep -E "^C[0-9]+ tier|load error|load/type" $T/out.txt | awk '{v="";for(i=1;i<=NF;i++) if($i ~ /^violations=/) v=$i; print $1, v}' | grep -v "violations=0" 
grep -E "^\s+\[(violation|undecided)\]" $T/out.txt | head -20
rm -rf $T
