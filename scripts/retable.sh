#!/bin/bash
# retable.sh ID : rebuild /verif/tables/nopanic_<ID>.tsv from scratch (sites + reviewed reasons)
cd /verif; mv tables/nopanic_$1.tsv /tmp/nopanic_$1.bak 2>/dev/null
MIXVET_DUMP_SITES=1 ./bin/mixvet check $1 | grep "^UNGUARDED" | cut -f2- > /tmp/$1.sites
python3 scripts/mktable.py $1 < /tmp/$1.sites
