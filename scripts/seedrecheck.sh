#!/bin/bash
# seedrecheck.sh : re-run the current checks against every kept seeded change (scratch copies, removed afterwards)
# and record the result in meta.json as caught_by_now; prints one line per change and fails if the property's own
# check does not report it.
cd /verif; rc=0
for d in seeded/*/; do
  n=$(basename $d); id=${n%%-*}
  caught=$(scripts/seedcheck.sh $d/patch.diff all 2>/dev/null | grep -E "^C[0-9]+ violations=" | awk '{print $1}' | tr '\n' ' ')
  python3 - "$d/meta.json" "$caught" <<'PY'
import json,sys
m=json.load(open(sys.argv[1])); m["caught_by_now"]=sys.argv[2].split()
if "caught_by_when_first_run" not in m: m["caught_by_when_first_run"]=m.get("caught_by",[])
m["caught_by"]=m["caught_by_now"]
json.dump(m,open(sys.argv[1],"w"),indent=1)
PY
  case " $caught" in *" $id "*) st=CAUGHT;; *) st=MISSED; rc=1;; esac
  echo "$st $n by [$caught]"
done
exit $rc
