#!/bin/bash
# seedrecheck.sh [jobs] : re-run the current checks against every kept seeded change (scratch copies, removed
# afterwards), record the result in meta.json as caught_by / caught_by_now, print one line per change and fail if
# the property's own check does not report it.
cd /verif; J=${1:-4}
one() {
  d=$1; n=$(basename $d); id=${n%%-*}
  caught=$(scripts/seedcheck.sh $d/patch.diff all 2>/dev/null | grep -E "^C[0-9]+ violations=" | awk '{print $1}' | tr '\n' ' ')
  python3 - "$d/meta.json" "$caught" <<'PY'
import json,sys
m=json.load(open(sys.argv[1])); now=sys.argv[2].split()
if "caught_by_when_first_run" not in m: m["caught_by_when_first_run"]=m.get("caught_by",[])
m["caught_by_now"]=now; m["caught_by"]=now
json.dump(m,open(sys.argv[1],"w"),indent=1)
PY
  case " $caught" in *" $id "*) echo "CAUGHT $n by [$caught]";; *) echo "MISSED $n by [$caught]";; esac
}
export -f one
ls -d seeded/*/ | sed 's#/$##' | xargs -P $J -I{} bash -c 'one {}' | sort > /tmp/seedrecheck.out
cat /tmp/seedrecheck.out
! grep -q "^MISSED" /tmp/seedrecheck.out
